"""Checks of the Exec family (C04 C05 C11 C12 C13 C14): model checking of
spec/Exec.tla, TLC-generated exhaustive small-scope scenarios replayed on the
real engine and pool, seeded random larger scenarios, all traces validated by
spec/ExecTrace.tla."""
import json
import os
import random
import subprocess

from vlib import Infra, NCPU, read_ndjson, run_driver, validate_traces, write_ndjson

ALL_INV = ["OneAtATime", "SortOrder", "Once", "OnlyTargets", "ContinueAll", "StopAtFirst",
           "GivenOrder", "ErrIff", "RejectRunsNothing", "MixBarrier", "InvBarrier", "NMWindow",
           "NMBarrier", "NMComplete", "DagBarrier", "DagOccurrences", "TagStops", "MixTagStops",
           "ResultExact", "ReturnAfterAll", "NoStuck"]

SEQ_ONLY = {"Execute", "ExecuteWithStopTagDirect", "ExecuteSelectedRules",
            "ExecuteSelectedRulesWithControl", "ExecuteSelectedRulesWithControlAsGivenSortedName",
            "ExecuteSelectedRulesWithControlAndStopTag",
            "ExecuteSelectedRulesWithControlAndStopTagAsGivenSortedName"}
EM = {"Execute", "ExecuteConcurrent", "ExecuteMixModel", "ExecuteInverseMixModel"}
EM_SEL = {"ExecuteSelectedRules", "ExecuteSelectedRulesConcurrent", "ExecuteSelectedRulesMixModel",
          "ExecuteSelectedRulesInverseMixModel"}


def cfg_text(spec, names, sal, methods, maxnames=0, dags="NoDag", nm="NoNM", unk="Unk",
             beh=None, tag=False, invariants=()):
    t = ["SPECIFICATION %s" % spec, "CHECK_DEADLOCK FALSE", "CONSTANTS",
         "  MCNames <- %s" % names, "  MCUnknown <- %s" % unk, "  MCSal <- %s" % sal,
         "  MCMethods = {%s}" % ", ".join('"%s"' % m for m in methods),
         "  MCMaxNames = %d" % maxnames, "  MCDags <- %s" % dags, "  MCNM <- %s" % nm,
         ]
    if spec == "GSpec":
        t += ["  GenBeh <- %s" % (beh or "Beh3"), "  GenTag = %s" % ("TRUE" if tag else "FALSE")]
    if invariants:
        t.append("INVARIANTS")
        t.append("  " + " ".join(invariants))
    return "\n".join(t) + "\n"


def model_check(run, name, **kw):
    d = run.spec_dir()
    open(os.path.join(d, name + ".cfg"), "w").write(cfg_text("MCSpec", invariants=ALL_INV, **kw))
    return run.model_check("ExecMC.tla", name + ".cfg", workers=min(NCPU, 12))


def generate(run, jobs):
    """jobs: [(name, kwargs)].  Runs the TLC generators in parallel, returns the records."""
    import concurrent.futures as cf
    recs = []

    def one(job):
        name, kw = job
        d = run.spec_dir("gen-" + name)
        open(os.path.join(d, name + ".cfg"), "w").write(cfg_text("GSpec", **kw))
        r = run.tlc("ExecGen.tla", name + ".cfg", workers=2, cwd=d, timeout=1500)
        p = os.path.join(d, "gen.ndjson")
        if not r.ok or not os.path.exists(p):
            raise Infra("generator %s failed:\n%s" % (name, r.tail(40)))
        out = read_ndjson(p)
        run.log("generated %d scenarios (%s) in %.1fs" % (len(out), name, r.wall))
        return out
    with cf.ThreadPoolExecutor(max_workers=max(1, NCPU // 3)) as ex:
        for out in ex.map(one, jobs):
            recs.extend(out)
    return recs


FAIL_KINDS = ["cond-notbool", "break-outside", "continue-outside", "arith-asg", "arith-if", "div-zero", "undef-var",
              "undef-func", "undef-method", "nil-deref", "nil-deref-set", "index-read", "index-write", "store-kind",
              "panic-method", "argcount", "not-nonbool", "cmp-if", "logic-asg", "arith-return", "panic-func-return", "arith-conc",
              "unexp-return", "panic-three"]


def to_call(rec, rng, tpls):
    beh = {}
    for name, b in rec["beh"]:
        if tpls.get(name) == "B":
            b = {"ret": "topret", "fail": "topfail", "ok": "topret"}.get(b, b)
        beh[name] = b
    return {"method": rec["method"], "via": "direct", "b": rec["b"], "names": rec["names"],
            "n": rec["n"], "m": rec["m"], "dag": rec["dag"], "beh": beh, "tagset": rec["tagset"]}


def to_sessions(recs, rng, targets=("engine", "pool"), chain=1, sample=None, btpl=0.25, warm=0.2):
    """Wraps generated scenarios into driver sessions.  chain > 1 groups scenarios
    over the same rule set into sessions of up to `chain` consecutive calls on
    one engine (C11)."""
    if sample is not None and len(recs) > sample:
        recs = rng.sample(recs, sample)
    groups = {}
    for r in recs:
        groups.setdefault(json.dumps(r["rules"], sort_keys=True), []).append(r)
    sessions = []
    sid = 0
    for key in sorted(groups):
        rs = groups[key]
        rng.shuffle(rs)
        rules = json.loads(key)
        i = 0
        while i < len(rs):
            # histories: up to `chain` consecutive calls (of any generated method) on one engine / pool
            k = rng.randint(1, chain)
            part = rs[i:i + k]
            i += k
            for tgt in targets:
                if tgt == "pool" and not rules:
                    continue
                tpls = {}
                fks = {}
                trng = random.Random(key + tgt + str(i // (chain * 40)))   # few distinct texts per rule set
                for ru in rules:
                    tpls[ru["name"]] = "B" if trng.random() < btpl else "A"
                    fks[ru["name"]] = trng.choice(FAIL_KINDS) if trng.random() < 0.4 else ""
                    # an "ok" outcome needs template A
                    if any(b == "ok" for p in part for n, b in p["beh"] if n == ru["name"]):
                        tpls[ru["name"]] = "A"
                calls = [to_call(p, rng, tpls) for p in part]
                for c in calls:
                    # now and then the very same call object (same argument slices) is issued twice
                    if rng.random() < 0.12:
                        c["rep"] = 1
                if tgt == "pool":
                    for c in calls:
                        x = rng.randrange(3)
                        if c["method"] in EM and x == 0 and (c["method"] != "Execute" or c["b"]):
                            c["via"] = rng.choice(["em", "emMulti"])
                        elif c["method"] in EM_SEL and x == 0:
                            c["via"] = "emSelected"
                sid += 1
                decl = [{"name": ru["name"], "sal": ru["sal"], "tpl": tpls[ru["name"]], "fk": fks[ru["name"]],
                         "nosal": trng.random() < 0.5} for ru in rules]
                if not any(c["method"] == "ExecuteDAGModel" or len(set(c.get("names") or [])) != len(c.get("names") or []) for c in calls):
                    for d in decl:      # never where one rule may run twice at once (its counter would be the caller's data race)
                        if trng.random() < 0.25:
                            d["rk"] = "loop"
                for d in decl:
                    if "rk" not in d and trng.random() < 0.15:
                        d["rk"] = "range"
                # parallel models are steered by gates (maximal overlap) - except one session in five, which runs at its natural
                # speed (a rule that fails at once is then over before its siblings have started)
                gated = any(c["method"] not in SEQ_ONLY for c in calls) and rng.random() < 0.8
                sess = {"id": sid, "target": tgt, "gated": gated, "burst": gated and rng.random() < 0.5,
                        "rules": decl, "calls": calls}
                if warm and decl and rng.random() < warm:
                    warm_up(sess, rng)
                sessions.append(sess)
    return sessions


def warm_up(sess, rng):
    """The rule set of the session is reached through an update: the session starts
    from a neighbouring rule set, performs the first call there, and then installs
    the intended rule set by an incremental build, a removal or a full rebuild
    (so that insertion, replacement and removal code feeds the execution models)."""
    decl = sess["rules"]
    first = json.loads(json.dumps(sess["calls"][0]))
    kind = rng.choice(["add", "sal", "remove", "full"])
    if kind == "add" and len(decl) < 2:
        kind = "sal"
    if kind == "add":
        x = rng.choice(decl)
        start = [d for d in decl if d["name"] != x["name"]]
        pre = [{"op": "incr", "rules": [x], "names": []}]
    elif kind == "sal":
        x = rng.choice(decl)
        start = [dict(d, sal=d["sal"] + rng.choice([-2, -1, 1, 2])) if d["name"] == x["name"] else d for d in decl]
        pre = [{"op": "incr", "rules": [x], "names": []}]
    elif kind == "remove":
        extra = {"name": "r9", "sal": rng.choice([-1, 0, 1, 5]), "tpl": "A"}
        start = decl + [extra]
        first["beh"]["r9"] = "ok"
        pre = [{"op": "remove", "rules": [], "names": ["r9"] + (["zz"] if rng.random() < 0.3 else [])}]
    else:
        sals = [d["sal"] for d in decl]
        rng.shuffle(sals)
        start = [dict(d, sal=s2) for d, s2 in zip(decl, sals)]
        pre = [{"op": "full", "rules": decl, "names": []}]
    sess["rules"] = start
    sess["calls"][0]["pre"] = pre
    sess["calls"].insert(0, first)


def random_sessions(run, binary, n, family, seed):
    p = os.path.join(run.scratch, "rand-%s-%d.ndjson" % (family, seed))
    r = subprocess.run([binary, "-random", str(n), "-family", family, "-seed", str(seed), "-gen", p],
                       capture_output=True, text=True)
    if r.returncode != 0:
        raise Infra("random generator failed: " + r.stderr[-2000:])
    return read_ndjson(p)


def summarize(sess, evs, idx):
    """Structural key + human-readable description of a rejected session."""
    if idx is None:
        ev = {"ev": "incomplete"}
        idx = len(evs)
    else:
        ev = evs[idx]
    # the call the rejected event belongs to
    begin = None
    for e in evs[:idx + 1]:
        if e.get("ev") == "begin":
            begin = e
    method = begin["method"] if begin else "?"
    kind = ev.get("ev")
    detail = ""
    if kind == "return":
        detail = "panic" if ev.get("panic") else "err=%s keys=%s" % (ev.get("err"), [k for k, _ in ev.get("keys", [])])
    elif kind in ("start", "end"):
        detail = "r=%s" % ev.get("r")
    elif kind == "crash":
        detail = (ev.get("stderr") or "").split("\n")[0]
    tgt = sess["target"] if sess else "?"
    key = "%s:%s:%s" % (tgt, method, kind if kind != "return" else ("panic" if ev.get("panic") else "return"))
    what = "%s %s: event #%d %s %s is not a step of Exec (session %s)" % (
        tgt, method, idx, kind, detail, evs[0].get("id"))
    return key, what


def run_and_validate(run, sessions, label, keys=False, timeouts_reproduce=False, race=False):
    """Executes sessions on the real code, validates the traces, reports rejections."""
    binary = run.go_build("execdrv", race=race)
    sp = os.path.join(run.scratch, "sessions-%s.ndjson" % label)
    tp = os.path.join(run.scratch, "traces-%s.ndjson" % label)
    write_ndjson(sp, sessions)
    by_id = {s["id"]: s for s in sessions}
    t0 = __import__("time").time()
    faults = run_driver(run, binary, sp, tp, extra=(("-calltimeout", "6s") if timeouts_reproduce else ()))
    run.log("%s: driver ran %d sessions in %.1fs" % (label, len(sessions), __import__("time").time() - t0))
    if faults:
        run.log("%d session(s) killed or hung the driver process" % len(faults))
    ns, nev, rejected = validate_traces(run, "ExecTrace.tla", "ExecTrace.cfg" if keys else "ExecTraceNoKeys.cfg", tp)
    run.log("%s: %d sessions, %d events validated, %d rejected" % (label, ns, nev, len(rejected)))
    # A watchdog timeout is a verdict only if the same session hangs again, alone, with ten times the budget (twice);
    # if it does not, the session is judged by its isolated re-run.  Up to three timed-out sessions are examined.
    def is_hang(evs, idx):
        return any(e.get("ev") == "timeout" for e in evs) and (idx is None or evs[idx].get("ev") == "timeout")
    hung_confirmed = set()
    examined = 0
    for sid, evs, idx in rejected:
        sess = by_id.get(sid)
        if is_hang(evs, idx):
            if hung_confirmed or examined >= 3:
                continue
            examined += 1
            n_to = 0
            good = []
            for k in range(2):
                rs = os.path.join(run.scratch, "sessions-repro%d.ndjson" % k)
                rt = os.path.join(run.scratch, "traces-repro%d.ndjson" % k)
                for p in (rs, rt):
                    if os.path.exists(p):
                        os.remove(p)
                write_ndjson(rs, [sess])
                run_driver(run, binary, rs, rt, nshards=1, extra=("-calltimeout", "60s" if timeouts_reproduce else "200s"), timeout=3600)
                if any(e.get("ev") == "timeout" for e in read_ndjson(rt)):
                    n_to += 1
                else:
                    good.append(rt)
            if n_to >= 2:
                hung_confirmed.add(sid)
                key, what = summarize(sess, evs, idx)
                run.violation(key, {"session": sess, "trace": evs, "rejected_event_index": idx,
                                    "spec": "ExecTrace.tla", "how_to_replay": "bin/check replay <this file>"},
                              what + " (the call never returned: hung again twice, alone, with ten times the budget)")
                continue
            if not good:
                raise Infra("session %s hit the driver watchdog and no isolated re-run completed (not a verdict)" % sid)
            _, _, rej2 = validate_traces(run, "ExecTrace.tla", "ExecTrace.cfg" if keys else "ExecTraceNoKeys.cfg", good[0], chunks=1)
            run.log("session %s: watchdog timeout not reproduced; its isolated re-run was %s" % (sid, "rejected" if rej2 else "accepted"))
            for sid2, e2, i2 in rej2:
                key, what = summarize(sess, e2, i2)
                run.violation(key, {"session": sess, "trace": e2, "rejected_event_index": i2,
                                    "spec": "ExecTrace.tla", "how_to_replay": "bin/check replay <this file>"}, what)
            continue
        key, what = summarize(sess, evs, idx)
        run.violation(key, {"session": sess, "trace": evs, "rejected_event_index": idx,
                            "spec": "ExecTrace.tla", "how_to_replay": "bin/check replay <this file>"}, what)
    # samples for the evidence file
    if not run.samples:
        lines = open(tp).read().split("\n")
        run.samples.append({"session": sessions[0], "trace_head": [json.loads(l) for l in lines[:8] if l]})
    return ns, len(rejected)


def self_test(run):
    """Binding demonstration: a recorded good trace with one corrupted field must
    be rejected (an end moved before its start, a dropped result key, a flipped
    error flag)."""
    binary = run.go_build("execdrv")
    sess = [{"id": 1, "target": "engine", "gated": False,
             "rules": [{"name": "r1", "sal": 2, "tpl": "A"}, {"name": "r2", "sal": 1, "tpl": "A"}],
             "calls": [{"method": "Execute", "via": "direct", "b": True, "names": [], "n": 0, "m": 0,
                        "dag": [], "beh": {"r1": "ret", "r2": "ok"}, "tagset": []}]}]
    sp = os.path.join(run.scratch, "st-sessions.ndjson")
    tp = os.path.join(run.scratch, "st-traces.ndjson")
    write_ndjson(sp, sess)
    run_driver(run, binary, sp, tp, nshards=1)
    evs = read_ndjson(tp)
    variants = []
    good = [dict(e) for e in evs]
    variants.append(("good", good))
    v = [dict(e) for e in evs]
    i = next(i for i, e in enumerate(v) if e["ev"] == "start" and e["r"] == "r2")
    v[i - 1], v[i] = v[i], v[i - 1]          # r2 starts before r1 ended
    variants.append(("swapped", v))
    ri = max(i for i, e in enumerate(evs) if e["ev"] == "return")
    v = [dict(e) for e in evs]
    v[ri] = dict(v[ri], keys=[])              # result key dropped
    variants.append(("dropped-key", v))
    v = [dict(e) for e in evs]
    v[ri] = dict(v[ri], err=True)             # error flag flipped
    variants.append(("flipped-err", v))
    v = [dict(e) for e in evs]
    fi = max(i for i, e in enumerate(evs) if e["ev"] == "frozen")
    v[fi] = dict(v[fi], same=False)           # a handed-back result map changed afterwards
    variants.append(("thawed", v))
    allp = os.path.join(run.scratch, "st-all.ndjson")
    with open(allp, "w") as f:
        for n, (name, v) in enumerate(variants):
            for e in v:
                if e["ev"] == "session":
                    e = dict(e, id=n)
                f.write(json.dumps(e) + "\n")
    saved = dict(run.cov)
    ns, nev, rejected = validate_traces(run, "ExecTrace.tla", "ExecTrace.cfg", allp, chunks=1)
    run.cov.clear()
    run.cov.update(saved)
    rej = sorted(sid for sid, _, _ in rejected)
    if 0 in rej:
        run.cov["binding_self_test"] = "skipped: the uncorrupted reference trace was rejected"
        return
    if rej != [1, 2, 3, 4]:
        raise Infra("binding self-test failed: expected the four corrupted traces to be rejected "
                    "and the good one accepted, got %s" % rej)
    run.cov["binding_self_test"] = "good trace accepted; swapped start/end, dropped result key, flipped error flag, result map changed after its return rejected"
