"""Registry: property id -> check function(run) -> exit code."""
import json
import os
import random

import execfam as X
from vlib import Infra, Run, NCPU

REGISTRY = {}


def prop(pid):
    def deco(f):
        REGISTRY[pid] = f
        return f
    return deco


def _exec_check(run, mc_jobs, gen_jobs, rand_family, rand_n, chain=3, sample=None, rule="", keys=False, extra=None, derive=None):
    rng = random.Random(run.seed)
    for name, kw in mc_jobs:
        X.model_check(run, name, **kw)
    recs = X.generate(run, gen_jobs)
    sessions = X.to_sessions(recs, rng, chain=chain, sample=sample)
    if derive:
        sessions += derive(recs, rng)
    run.cov["generated_scenarios"] = len(recs)
    run.cov["replayed_sessions_small_scope"] = len(sessions)
    ns1, _ = X.run_and_validate(run, sessions, "gen", keys)
    binary = run.go_build("execdrv")
    rs = X.random_sessions(run, binary, rand_n, rand_family, run.seed)
    if extra:
        rs += extra(rng)
    ns2, _ = X.run_and_validate(run, rs, "rand", keys)
    run.cov["random_sessions"] = len(rs)
    if not run.violations:
        X.self_test(run)     # binding demonstration (only meaningful on a tree that conforms)
    run.cov["evaluations"] = ns1 + ns2
    run.cov["distinct_nontrivial"] = len({json.dumps([s["rules"], s["calls"], s["target"]], sort_keys=True)
                                          for s in sessions + rs if s["rules"]})
    run.assumptions += [
        "event order is the order of observer calls under one mutex (DESIGN 4.1)",
        "TLC 1.8.0, Json/SequencesExt community modules, Go toolchain",
        "rule outcomes (ok/ret/fail) are produced by injected functions called from compiled rule bodies"]
    return run.finish("model_checking", rule, exhaustive=False)


T = lambda run, q, t: q if run.tier == "quick" else t


@prop("C04")
def c04(run):
    seqm = ["Execute", "ExecuteSelectedRules", "ExecuteSelectedRulesWithControl"]
    mc = [("mc_sort", dict(names=T(run, "Names3", "Names4"), sal="Sal3", methods=["Execute"])),
          ("mc_selsort", dict(names="Names3", sal="Sal3", maxnames=T(run, 2, 3),
                              methods=["ExecuteSelectedRules", "ExecuteSelectedRulesWithControl"]))]
    gen = [("g_exec", dict(names="Names3", sal="Sal3", methods=["Execute"], beh="Beh3")),
           ("g_sel", dict(names=T(run, "Names2", "Names3"), sal="Sal3", maxnames=T(run, 2, 3),
                          methods=["ExecuteSelectedRules"], beh="Beh2")),
           ("g_selc", dict(names=T(run, "Names2", "Names3"), sal=T(run, "Sal3", "Sal2"), maxnames=T(run, 2, 3),
                           methods=["ExecuteSelectedRulesWithControl"], beh="Beh2"))]
    return _exec_check(run, mc, gen, "sort", T(run, 600, 12000),
                       rule="sessions = (rule set with saliences, method, error-policy flag, name list, outcome per rule) "
                            "enumerated by TLC from ExecMC (<=3 rules, saliences {-1,0,1}, outcomes ok/ret/fail) on engine and pool, "
                            "plus seeded random sessions (<=12 rules, saliences up to +-1e9, ties); distinct = distinct "
                            "(rules, calls, target) with at least one rule")


def replay(path):
    """Re-runs a recorded violation on the current tree of /repo: the recorded session (scenario) is executed again by
    its driver and the new trace is validated by the trace specification that rejected the recorded one."""
    rp = json.load(open(path))
    run = Run("replay", "quick")
    try:
        sess = rp.get("session")
        spec = rp.get("spec", "ExecTrace.tla")
        if sess is None:
            case = rp.get("case") or rp.get("race") or rp
            print("this replay file records a single evaluated case (no session to re-run); what was observed:")
            print(json.dumps(case, indent=1)[:3000])
            print("re-run the property's check to evaluate it again on the current tree")
            return 0
        if spec.startswith("ExecTrace"):
            X.run_and_validate(run, [sess], "replay", keys=True)
        elif spec.startswith("ConcTrace"):
            B._run(run, [sess], "replay", "ConcTrace.tla", "ConcTrace.cfg", B.conc_describe)
        elif spec.startswith("LocalsTrace"):
            B._run(run, [sess], "replay", "LocalsTrace.tla", "LocalsTrace.cfg", B.locals_describe)
        elif spec.startswith("RuleSetTrace"):
            R._run(run, [sess], "replay", "RuleSetTrace.tla", "RuleSetTrace.cfg", R.rs_describe, nshards=1)
        elif spec.startswith("CompileTrace"):
            R._run(run, [sess], "replay", "CompileTrace.tla", "CompileTrace.cfg", R.cm_describe, nshards=1)
        elif spec.startswith("PoolTrace"):
            P.run_sessions(run, [sess], "replay")
        elif spec.startswith("LangTrace"):
            L.run_lang(run, [sess], "replay")
        else:
            print("no replay procedure for", spec)
            return 2
        for key, p, what in run.violations:
            print("REPRODUCED:", what)
        if not run.violations:
            print("not reproduced: the recorded session is accepted on the current tree")
        return 1 if run.violations else 0
    except Infra as e:
        print("INFRA:", e)
        return 2
    finally:
        run.cleanup()


@prop("C05")
def c05(run):
    nm = ["ExecuteNSortMConcurrent", "ExecuteNConcurrentMSort", "ExecuteNConcurrentMConcurrent"]
    snm = ["ExecuteSelectedNSortMConcurrent", "ExecuteSelectedNConcurrentMSort", "ExecuteSelectedNConcurrentMConcurrent"]
    mix = ["ExecuteMixModel", "ExecuteInverseMixModel"]
    smix = ["ExecuteSelectedRulesMixModel", "ExecuteSelectedRulesInverseMixModel"]
    mc = [("mc_mix", dict(names=T(run, "Names3", "Names4"), sal="Sal3", methods=mix)),
          ("mc_nm", dict(names="Names3", sal=T(run, "Sal2", "Sal3"), methods=nm, nm=T(run, "NMq", "NM3"))),
          ("mc_snm", dict(names="Names3", sal="Sal2", methods=snm, nm="NMq", maxnames=3)),
          ("mc_smix", dict(names="Names3", sal="Sal2", methods=smix, maxnames=3))]
    gen = [("g_mix", dict(names="Names3", sal="Sal3", methods=mix, beh="Beh3")),
           ("g_nm", dict(names="Names3", sal="Sal2", methods=nm, nm="NMq", beh="Beh2")),
           ("g_smix", dict(names="Names3", sal="Sal2", methods=smix, maxnames=3, beh="Beh2"))]
    if run.tier == "quick":
        gen.append(("g_snm", dict(names="Names2", sal="Sal2", methods=snm, nm="NMq", maxnames=2, beh="Beh2")))
        gen.append(("g_snm3", dict(names="Names3", sal="Sal1", methods=snm, nm="NM11", maxnames=3, beh="Beh1")))
    else:
        # one generator job per method keeps every job below ~7k records
        gen += [("g_snm%d" % i, dict(names="Names3", sal="Sal1", methods=[m], nm="NMs", maxnames=3, beh="Beh2")) for i, m in enumerate(snm)]
    if run.tier == "thorough":
        gen.append(("g_nm4", dict(names="Names4", sal="Sal2", methods=nm, nm="NM4", beh="Beh2")))
    def hammer(rng):
        """Wide rule sets run again and again at their natural speed (no gates): a scheduler that hands the rules of a
        stage to its goroutines must give every rule to exactly one of them in every single call."""
        out = []
        for i in range(T(run, 6, 60)):
            n = rng.choice([17, 33, 34])
            rules = [{"name": "r%d" % (j + 1), "sal": rng.choice([0, 0, 1, 2, -1]), "tpl": "A"} for j in range(n)]
            k = rng.randint(1, n - 1)
            m, extra = rng.choice([("ExecuteMixModel", {}), ("ExecuteMixModel", {}), ("ExecuteInverseMixModel", {}),
                                   ("ExecuteNConcurrentMConcurrent", {"n": k, "m": n - k}), ("ExecuteNSortMConcurrent", {"n": 1, "m": n - 1}),
                                   ("ExecuteNConcurrentMSort", {"n": n - 1, "m": 1})])
            c = {"method": m, "via": "direct", "b": True, "names": [], "n": 0, "m": 0, "dag": [], "beh": {}, "tagset": [],
                 "rep": T(run, 160, 400)}
            c.update(extra)
            out.append({"id": 3000000 + i, "target": rng.choice(["engine", "pool"]), "gated": False, "rules": rules, "calls": [c]})
        # ... and small rule sets with ONE failing rule in the concurrent stage, called again and again: the failure is
        # recorded before the stage is over in every single call (whichever goroutine finishes last)
        for i in range(T(run, 8, 80)):
            n = rng.randint(2, 4)
            rules = [{"name": "r%d" % (j + 1), "sal": n - j, "tpl": "A", "fk": rng.choice(["", "arith-asg", "undef-var", "panic-func"])}
                     for j in range(n)]
            m, extra = rng.choice([("ExecuteInverseMixModel", {}), ("ExecuteNConcurrentMSort", {"n": n - 1, "m": 1}),
                                   ("ExecuteNConcurrentMConcurrent", {"n": n - 1, "m": 1}), ("ExecuteConcurrent", {}),
                                   ("ExecuteMixModel", {})])
            # the failing rule is one of the rules of the concurrent stage (never the sequential head / tail)
            stage = rules[1:] if m == "ExecuteMixModel" else (rules if m == "ExecuteConcurrent" else rules[:n - 1])
            bad = rng.choice(stage)["name"]
            c = {"method": m, "via": "direct", "b": False, "names": [], "n": 0, "m": 0, "dag": [],
                 "beh": {r["name"]: ("fail" if r["name"] == bad else "ok") for r in rules}, "tagset": [], "rep": T(run, 150, 400)}
            c.update(extra)
            out.append({"id": 3100000 + i, "target": rng.choice(["engine", "pool"]), "gated": False, "rules": rules, "calls": [c]})
        return out
    return _exec_check(run, mc, gen, "mix", T(run, 500, 8000), sample=T(run, 3000, 40000), extra=hammer,
                       rule="sessions enumerated by TLC from ExecMC (mix, inverse mix, the three N-M models and their selected "
                            "variants; <=3 (thorough: 4) rules, tied saliences, every (N,M) split incl. invalid ones, outcomes ok/fail) "
                            "run under maximal-overlap gate steering on engine and pool, plus seeded random sessions (<=12 rules, some "
                            "16-34) and wide rule sets (17-34 rules) called 160 (thorough 400) times each at natural speed; "
                            "distinct = distinct (rules, calls, target)")


@prop("C11")
def c11(run):
    groups = [
        ("g_plain", dict(names="Names2", sal="Sal2", beh="Beh3",
                         methods=["Execute", "ExecuteConcurrent", "ExecuteMixModel", "ExecuteInverseMixModel"])),
        ("g_sel", dict(names="Names2", sal="Sal2", beh="Beh3", maxnames=2,
                       methods=["ExecuteSelectedRules", "ExecuteSelectedRulesConcurrent",
                                "ExecuteSelectedRulesWithControlAsGivenSortedName", "ExecuteSelectedRulesMixModel",
                                "ExecuteSelectedRulesInverseMixModel"])),
        ("g_nm", dict(names="Names3", sal="Sal1", beh="Beh3", nm="NMq",
                      methods=["ExecuteNSortMConcurrent", "ExecuteNConcurrentMSort", "ExecuteNConcurrentMConcurrent"])),
        ("g_dag", dict(names="Names2", sal="Sal1", beh="Beh3", dags="Dags22", methods=["ExecuteDAGModel"])),
        ("g_tag", dict(names="Names2", sal="Sal2", beh="Beh3", tag=True,
                       methods=["ExecuteWithStopTagDirect", "ExecuteMixModelWithStopTagDirect"])),
    ]
    mc = [("mc_result", dict(names=T(run, "Names2", "Names3"), sal="Sal2", dags="Dags22", nm="NMq",
                             methods=["Execute", "ExecuteConcurrent", "ExecuteMixModel", "ExecuteInverseMixModel",
                                      "ExecuteNSortMConcurrent", "ExecuteDAGModel"])),
          ("mc_result3", dict(names="Names3", sal="Sal2", methods=["Execute", "ExecuteConcurrent", "ExecuteMixModel"]))]
    def burst_sessions(rng):
        """Many rules returning at the same moment (exit-burst steering): concurrent writers of the result map."""
        out = []
        for i in range(T(run, 160, 2500)):
            n = rng.randint(6, 12)
            rules = [{"name": "r%d" % (j + 1), "sal": rng.randint(-3, 3), "tpl": rng.choice(["A", "B"])} for j in range(n)]
            beh = {r["name"]: ("topret" if r["tpl"] == "B" else rng.choice(["ret", "ret", "retnil"])) for r in rules}
            names = [r["name"] for r in rules]
            k = rng.randint(1, n - 1)
            m, extra = rng.choice([("ExecuteConcurrent", {}), ("ExecuteDAGModel", {"dag": [names]}),
                                   ("ExecuteNConcurrentMConcurrent", {"n": k, "m": n - k}), ("ExecuteMixModel", {}),
                                   ("ExecuteInverseMixModel", {}), ("ExecuteSelectedRulesConcurrent", {"names": names})])
            c = {"method": m, "via": "direct", "b": True, "names": [], "n": 0, "m": 0, "dag": [], "beh": beh, "tagset": []}
            c.update(extra)
            out.append({"id": 2000000 + i, "target": rng.choice(["engine", "pool"]), "gated": True, "burst": True,
                        "rules": rules, "calls": [c, dict(c)]})
        return out
    return _exec_check(run, mc, groups, "result", T(run, 400, 6000), chain=3, sample=T(run, 6000, 60000), keys=True, extra=burst_sessions,
                       rule="sessions = sequences of up to 3 calls of different methods on one engine / one pool over the same rule set, "
                            "every rule independently not returning / returning a value / returning nil / failing before or inside "
                            "its return (nested and top-level); scenarios enumerated by TLC (<=3 rules) plus seeded random call "
                            "sequences (2-4 calls, <=12 rules, all 21 methods); the result map of every call is compared with Exec's")


@prop("C12")
def c12(run):
    sel = ["ExecuteSelectedRules", "ExecuteSelectedRulesWithControl", "ExecuteSelectedRulesWithControlAsGivenSortedName",
           "ExecuteSelectedRulesConcurrent", "ExecuteSelectedRulesMixModel", "ExecuteSelectedRulesInverseMixModel"]
    snm = ["ExecuteSelectedNSortMConcurrent", "ExecuteSelectedNConcurrentMSort", "ExecuteSelectedNConcurrentMConcurrent"]
    mc = [("mc_sel", dict(names="Names3", sal="Sal2", methods=sel, maxnames=T(run, 2, 3))),
          ("mc_snm", dict(names="Names3", sal="Sal2", methods=snm, nm="NMq", maxnames=3))]
    gen = [("g_sel%d" % i, dict(names="Names3", sal="Sal2", methods=[m], maxnames=T(run, 2, 3), beh="Beh2"))
           for i, m in enumerate(sel)]
    # negative, zero and positive saliences together in the sorted variants
    gen += [("g_selneg", dict(names=T(run, "Names2", "Names3"), sal="Sal3", methods=sel[:2] + ["ExecuteSelectedRulesWithControlAndStopTag"],
                              maxnames=T(run, 2, 3), beh="Beh1"))]
    if run.tier == "quick":
        gen += [("g_snm", dict(names="Names2", sal="Sal2", methods=snm, nm="NMq", maxnames=2, beh="Beh2")),
                ("g_snm3", dict(names="Names3", sal="Sal1", methods=snm, nm="NM11", maxnames=3, beh="Beh1"))]   # name lists longer than N+M
    else:
        gen += [("g_snm%d" % i, dict(names="Names3", sal="Sal1", methods=[m], nm="NMs", maxnames=3, beh="Beh2")) for i, m in enumerate(snm)]
    return _exec_check(run, mc, gen, "selected", T(run, 500, 8000), sample=T(run, 4000, 60000),
                       rule="sessions enumerated by TLC: every selected variant x every name list without repetition of length <=2 "
                            "(thorough: <=3) over {r1,r2,r3,zz} (subsets, permutations, unknown names, empty list) x rule sets x outcomes, "
                            "on engine and pool (direct and ...WithSpecifiedEM), plus seeded random sessions with <=12 rules")


@prop("C13")
def c13(run):
    mc = [("mc_dag", dict(names="Names2", sal="Sal1", methods=["ExecuteDAGModel"], dags=T(run, "Dags22", "Dags32")))]
    gen = [("g_dag", dict(names="Names2", sal="Sal1", methods=["ExecuteDAGModel"], dags="Dags22", beh="Beh3")),
           ("g_dag3", dict(names="Names2", sal="Sal1", methods=["ExecuteDAGModel"], dags=T(run, "Dags31", "Dags32"), beh="Beh2"))]
    return _exec_check(run, mc, gen, "dag", T(run, 600, 10000), sample=T(run, 3000, 40000),
                       rule="sessions enumerated by TLC: every layering with <=2 layers x <=2 names (quick; thorough <=3 layers) over "
                            "{r1,r2,zz} incl. empty layers, repeated and unknown names x installed subsets x outcomes, gated; plus "
                            "seeded random DAGs (<=4 layers x <=3 names over <=12 rules)")


@prop("C14")
def c14(run):
    tagm = ["ExecuteWithStopTagDirect", "ExecuteMixModelWithStopTagDirect",
            "ExecuteSelectedRulesWithControlAndStopTag", "ExecuteSelectedRulesWithControlAndStopTagAsGivenSortedName"]
    mc = [("mc_tag", dict(names="Names3", sal="Sal2", methods=tagm[:2])),
          ("mc_seltag", dict(names="Names3", sal="Sal2", methods=tagm[2:], maxnames=T(run, 2, 3)))]
    gen = [("g_tag", dict(names="Names3", sal="Sal2", methods=tagm[:1], beh="Beh2", tag=True)),
           ("g_mixtag", dict(names="Names3", sal="Sal2", methods=tagm[1:2], beh="Beh2", tag=True)),
           ("g_seltag", dict(names=T(run, "Names2", "Names3"), sal="Sal2", methods=tagm[2:], beh="Beh2", tag=True,
                             maxnames=T(run, 2, 3))),
           # the rule that sets the tag may also return a value
           ("g_tagret", dict(names="Names3", sal="Sal1", methods=tagm, beh="Beh3", tag=True, maxnames=T(run, 2, 3)))]
    notag = {"ExecuteWithStopTagDirect": "Execute", "ExecuteMixModelWithStopTagDirect": "ExecuteMixModel",
             "ExecuteSelectedRulesWithControlAndStopTag": "ExecuteSelectedRulesWithControl",
             "ExecuteSelectedRulesWithControlAndStopTagAsGivenSortedName": "ExecuteSelectedRulesWithControlAsGivenSortedName"}

    def twins(recs, rng):
        """'If the tag is never set, behaviour is identical to the corresponding variant without a tag': the variant
        without a tag and then the stop-tag variant, same arguments and outcomes, on one engine; ExecTrace compares the
        two histories.  Rule sets get extra tied saliences (identity includes the order among ties)."""
        out = []
        cand = [r for r in recs if not r["tagset"]]
        rng.shuffle(cand)
        for i, r in enumerate(cand[:T(run, 1500, 20000)]):
            rules = [dict(ru) for ru in r["rules"]]
            if rng.random() < 0.5:
                for ru in rules:
                    ru["sal"] = rng.choice([0, 0, 1])
            names = list(r["names"])
            if names and rng.random() < 0.5:
                rng.shuffle(names)
            tpls = {ru["name"]: "A" for ru in rules}
            c2 = X.to_call(dict(r, names=names), rng, tpls)
            c1 = dict(c2, method=notag[r["method"]])
            c2["twin"] = True
            for tgt in ("engine", "pool"):
                if tgt == "pool" and not rules:
                    continue
                out.append({"id": 3000000 + 2 * i + (tgt == "pool"), "target": tgt, "gated": "Mix" in r["method"], "burst": False,
                            "rules": [{"name": ru["name"], "sal": ru["sal"], "tpl": "A", "fk": rng.choice(["", ""] + X.FAIL_KINDS[:6])} for ru in rules],
                            "calls": [c1, c2]})
        return out
    return _exec_check(run, mc, gen, "tag", T(run, 500, 8000), sample=T(run, 4000, 60000), derive=twins,
                       rule="sessions enumerated by TLC: the four stop-tag variants x rule sets (<=3 rules, tied saliences) x which rule "
                            "(or none) sets the tag x outcomes x error policy; the tag-less case is the same plan without the gate, so "
                            "'never set' traces are validated against the identical-behaviour requirement; plus seeded random sessions")


import bodyfam as B  # noqa: E402


@prop("C15")
def c15(run):
    return B.check_c15(run)


@prop("C18")
def c18(run):
    return B.check_c18(run)


import rsfam as R  # noqa: E402


@prop("C08")
def c08(run):
    return R.check_c08(run)


@prop("C10")
def c10(run):
    return R.check_c10(run)


import poolfam as P  # noqa: E402


@prop("C17")
def c17(run):
    return P.check_c17(run)


@prop("C06")
def c06(run):
    return P.check_c06(run)


@prop("C16")
def c16(run):
    return P.check_c16(run)


@prop("C07")
def c07(run):
    return P.check_c07(run)


import langfam as L  # noqa: E402


@prop("C02")
def c02(run):
    return L.check_c02(run)


@prop("C01")
def c01(run):
    return L.check_c01(run)


@prop("C20")
def c20(run):
    return L.check_c20(run)


@prop("C03")
def c03(run):
    return L.check_c03(run)


FAULT_CODES = """arith-asg arith-if arith-elseif arith-forinit arith-forcond arith-forstep arith-return arith-arg arith-conc div-zero
div-zero-if cmp-asg cmp-if cmp-return logic-asg logic-if cond-notbool cond-notbool-for not-nonbool not-nonbool-if not-nonbool-return
undef-var undef-var-if undef-var-return undef-var-arg undef-var-range undef-func undef-func-if undef-method undef-method-asg undef-three
undef-field undef-field-if undef-field-set undef-obj-set nil-deref nil-deref-if nil-deref-set nil-deref-2 nil-deref-2-if nil-deref-call
nil-method index-read index-read-if index-read-return index-write index-empty index-var index-neg badkey-kind badkey-kind-set
mapkey-undef index-str index-nonmap argcount argcount-more argkind argkind-meth store-kind store-kind-bool store-value store-scalar
panic-func panic-func-if panic-func-arg panic-func-return panic-method panic-conc nil-func break-outside continue-outside
unbounded-for unbounded-nested range-noniter range-int unbounded-continue unbounded-continue-if index-write-conc
index-read-conc store-kind-conc argcount-conc argkind-conc nil-deref-conc nil-func-conc undef-func-conc undef-method-conc
panic-method-conc panic-three-conc unexp-return unexp-return-local unexp-arg unexp-set unexp-conc panic-three undef-root-3 local-root-3 local-root-3-if read-unbound cond-notbool-elseif cond-notbool-elseif2 cyclic-read cyclic-write""".split()


BENIGN_CODES = ["grow-range", "grow-range-map", "long-for", "nested-for", "range-in-for", "break-inner"]


@prop("C09")
def c09(run):
    """Fault containment: the Exec trace specification with rule bodies that contain a real fault of every class at
    every syntactic position (the end of the execution is logged as failed just before the faulty statement): the call
    must return (no panic, crash or hang), with an error, the other rules per the model's policy, and a following
    call on the same engine must be unaffected."""
    rng = random.Random(run.seed)
    quick = run.tier == "quick"
    allm = ["Execute", "ExecuteWithStopTagDirect", "ExecuteConcurrent", "ExecuteMixModel", "ExecuteMixModelWithStopTagDirect",
            "ExecuteInverseMixModel", "ExecuteNSortMConcurrent", "ExecuteNConcurrentMSort", "ExecuteNConcurrentMConcurrent", "ExecuteDAGModel"]
    selm = ["ExecuteSelectedRules", "ExecuteSelectedRulesWithControl", "ExecuteSelectedRulesWithControlAsGivenSortedName",
            "ExecuteSelectedRulesWithControlAndStopTag", "ExecuteSelectedRulesWithControlAndStopTagAsGivenSortedName",
            "ExecuteSelectedRulesConcurrent", "ExecuteSelectedRulesMixModel", "ExecuteSelectedRulesInverseMixModel",
            "ExecuteSelectedNSortMConcurrent", "ExecuteSelectedNConcurrentMSort", "ExecuteSelectedNConcurrentMConcurrent"]
    X.model_check(run, "mc_fault", names="Names3", sal="Sal2", methods=["Execute", "ExecuteConcurrent", "ExecuteMixModel", "ExecuteInverseMixModel"])
    gen = [("g_f1", dict(names="Names3", sal="Sal2", methods=allm[:6], beh="BehF")),
           ("g_f2", dict(names="Names3", sal="Sal1", methods=allm[6:9], nm="NMq", beh="BehF")),
           ("g_f3", dict(names="Names2", sal="Sal1", methods=["ExecuteDAGModel"], dags="Dags22", beh="BehF")),
           ("g_f4", dict(names="Names3", sal="Sal1", methods=selm[:8], maxnames=2, beh="BehF")),
           ("g_f5", dict(names="Names2", sal="Sal1", methods=selm[8:], maxnames=2, nm="NMq", beh="BehF"))]
    recs = [r for r in X.generate(run, gen) if any(b == "fault" for _, b in r["beh"])]
    run.cov["generated_scenarios"] = len(recs)
    # every fault code meets every method (quick: a rotating subset; thorough: several rounds of the full product)
    by_method = {}
    for r in recs:
        by_method.setdefault(r["method"], []).append(r)
    sessions = []
    sid = 0
    rounds = 1 if quick else 6
    def weight(r):
        """how many faults meet in one place: faulting occurrences of the fullest DAG layer minus the number of layers, else
        the number of faulting rules"""
        f = {n for n, b in r["beh"] if b == "fault"}
        if r["method"] == "ExecuteDAGModel":
            return max([sum(1 for n in layer if n in f) for layer in r["dag"]] + [0]) * 10 - len(r["dag"])
        return len(f)
    for m, rs in sorted(by_method.items()):
        top = max(weight(r) for r in rs)
        heavy = [r for r in rs if weight(r) == top]
        for rd in range(rounds):
          for code in FAULT_CODES:
            # a random scenario, and one in which as many faults as possible meet (same stage / same layer)
            for r in (rng.choice(rs), rng.choice(heavy)):
                for tgt in (("engine", "pool") if not quick else (rng.choice(["engine", "pool"]),)):
                    if tgt == "pool" and not r["rules"]:
                        continue
                    beh = dict((n, b) for n, b in r["beh"])
                    decl = [{"name": ru["name"], "sal": ru["sal"], "tpl": ("F:" + code) if beh[ru["name"]] == "fault" else "A"}
                            for ru in r["rules"]]
                    if code == "read-unbound":
                        # the faulting rule that runs first (highest salience) binds the name and dies; the others read it
                        fr = sorted((d for d in decl if d["tpl"].startswith("F:")), key=lambda d: -d["sal"])
                        if fr:
                            fr[0]["tpl"] = "F:bind-then-panic"
                    call = {"method": r["method"], "via": "direct", "b": r["b"], "names": r["names"], "n": r["n"], "m": r["m"],
                            "dag": r["dag"], "beh": beh, "tagset": []}
                    healthy = dict(call, beh={n: rng.choice(["ok", "ret"]) for n in beh})
                    if "StopTag" in r["method"] and rng.random() < 0.4:
                        # the faulting rule sets the stop tag just before its fault: the call stops there AND reports the fault
                        call = dict(call, tagset=[n for n, b in beh.items() if b == "fault"])
                    sid += 1
                    sessions.append({"id": sid, "target": tgt, "gated": r["method"] not in X.SEQ_ONLY and rng.random() < 0.7,
                                     "burst": rng.random() < 0.3, "rules": decl, "calls": [call, healthy, dict(call)], "fault": code,
                                     # injected data itself may be odd: a nil value, an empty key
                                     "baddata": tgt == "pool" and rng.random() < 0.15})
    if quick and len(sessions) > 3000:
        sessions = rng.sample(sessions, 3000)
    # "never hang" also for rules that do nothing wrong: legal loops whose body lengthens the collection they range over,
    # long and nested loops - in a healthy rule of every execution model
    for m, rs in sorted(by_method.items()):
        for code in BENIGN_CODES:
            for _ in range(1 if quick else 6):
                r = rng.choice(rs)
                if not r["rules"]:
                    continue
                tgt = rng.choice(["engine", "pool"])
                beh = {n: rng.choice(["ok", "ret"]) for n, b in r["beh"]}
                # some of these bodies write injected data that the whole call shares: their rule must not run twice at the
                # same moment (the same name twice in one DAG layer / in a name list) - that would be the caller's own race
                once = [ru["name"] for ru in r["rules"]
                        if (r["names"] or []).count(ru["name"]) <= 1 and all(layer.count(ru["name"]) <= 1 for layer in (r["dag"] or []))]
                if not once:
                    continue
                carrier = rng.choice(once)
                decl = [{"name": ru["name"], "sal": ru["sal"], "tpl": ("N:" + code) if ru["name"] == carrier else "A"} for ru in r["rules"]]
                call = {"method": r["method"], "via": "direct", "b": r["b"], "names": r["names"], "n": r["n"], "m": r["m"],
                        "dag": r["dag"], "beh": beh, "tagset": []}
                sid += 1
                sessions.append({"id": sid, "target": tgt, "gated": False, "burst": False, "rules": decl,
                                 "calls": [call, dict(call), dict(call)], "fault": "benign:" + code})
    ns, nrej = X.run_and_validate(run, sessions, "faults", keys=True, timeouts_reproduce=True)
    run.cov["evaluations"] = ns
    run.cov["fault_classes_x_positions"] = len(FAULT_CODES)
    run.cov["distinct_nontrivial"] = len({(s["fault"], s["calls"][0]["method"], s["target"]) for s in sessions})
    if not run.violations:
        X.self_test(run)
    run.assumptions += ["a faulty rule logs its end as failed immediately before the faulty statement; if the fault did not fail the rule, "
                        "the return event contradicts the specification", "injected functions terminate",
                        "a watchdog timeout counts only if the same session hangs again alone with ten times the budget"]
    return run.finish("model_checking",
                      "cells = %d fault class x syntactic position snippets (ill-typed arithmetic / comparison / logic, non-boolean condition, "
                      "! on non-boolean, unknown variable / function / method / field, nil dereference one and two levels, index out of range "
                      "read and write, bad key kind, wrong argument count or kind, panicking and nil injected function, break / continue outside "
                      "a loop, unbounded for; in assignment rhs / lhs, if, else-if, for init / condition / step, forRange operand, return, call "
                      "argument, conc child, map key) x 21 execute methods on engine and pool x TLC-enumerated rule sets with the faulty rule at "
                      "every plan position; three calls per session (faulty, healthy, faulty) on one engine / pool; distinct = (fault, method, "
                      "target)" % len(FAULT_CODES))


import racefam as RC  # noqa: E402


@prop("C19")
def c19(run):
    return RC.check_c19(run)
