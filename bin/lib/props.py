"""Registry: property id -> check function(run) -> exit code."""
import json
import os
import random

import execfam as X
from vlib import Infra, Run, NCPU

REGISTRY = {}


def prop(pid):
    def deco(f):
        REGISTRY[pid] = f
        return f
    return deco


def _exec_check(run, mc_jobs, gen_jobs, rand_family, rand_n, chain=1, sample=None, rule="", keys=False, extra=None):
    rng = random.Random(run.seed)
    for name, kw in mc_jobs:
        X.model_check(run, name, **kw)
    recs = X.generate(run, gen_jobs)
    sessions = X.to_sessions(recs, rng, chain=chain, sample=sample)
    run.cov["generated_scenarios"] = len(recs)
    run.cov["replayed_sessions_small_scope"] = len(sessions)
    ns1, _ = X.run_and_validate(run, sessions, "gen", keys)
    binary = run.go_build("execdrv")
    rs = X.random_sessions(run, binary, rand_n, rand_family, run.seed)
    if extra:
        rs += extra(rng)
    ns2, _ = X.run_and_validate(run, rs, "rand", keys)
    run.cov["random_sessions"] = len(rs)
    if not run.violations:
        X.self_test(run)     # binding demonstration (only meaningful on a tree that conforms)
    run.cov["evaluations"] = ns1 + ns2
    run.cov["distinct_nontrivial"] = len({json.dumps([s["rules"], s["calls"], s["target"]], sort_keys=True)
                                          for s in sessions + rs if s["rules"]})
    run.assumptions += [
        "event order is the order of observer calls under one mutex (DESIGN 4.1)",
        "TLC 1.8.0, Json/SequencesExt community modules, Go toolchain",
        "rule outcomes (ok/ret/fail) are produced by injected functions called from compiled rule bodies"]
    return run.finish("model_checking", rule, exhaustive=False)


T = lambda run, q, t: q if run.tier == "quick" else t


@prop("C04")
def c04(run):
    seqm = ["Execute", "ExecuteSelectedRules", "ExecuteSelectedRulesWithControl"]
    mc = [("mc_sort", dict(names=T(run, "Names3", "Names4"), sal="Sal3", methods=["Execute"])),
          ("mc_selsort", dict(names="Names3", sal="Sal3", maxnames=T(run, 2, 3),
                              methods=["ExecuteSelectedRules", "ExecuteSelectedRulesWithControl"]))]
    gen = [("g_exec", dict(names="Names3", sal="Sal3", methods=["Execute"], beh="Beh3")),
           ("g_sel", dict(names=T(run, "Names2", "Names3"), sal="Sal3", maxnames=T(run, 2, 3),
                          methods=["ExecuteSelectedRules"], beh="Beh2")),
           ("g_selc", dict(names=T(run, "Names2", "Names3"), sal=T(run, "Sal3", "Sal2"), maxnames=T(run, 2, 3),
                           methods=["ExecuteSelectedRulesWithControl"], beh="Beh2"))]
    return _exec_check(run, mc, gen, "sort", T(run, 600, 12000),
                       rule="sessions = (rule set with saliences, method, error-policy flag, name list, outcome per rule) "
                            "enumerated by TLC from ExecMC (<=3 rules, saliences {-1,0,1}, outcomes ok/ret/fail) on engine and pool, "
                            "plus seeded random sessions (<=12 rules, saliences up to +-1e9, ties); distinct = distinct "
                            "(rules, calls, target) with at least one rule")


def replay(path):
    rp = json.load(open(path))
    run = Run("replay", "quick")
    try:
        sess = rp["session"]
        ns, nrej = X.run_and_validate(run, [sess], "replay")
        for key, p, what in run.violations:
            print("REPRODUCED:", what)
        if not run.violations:
            print("not reproduced: the recorded session is accepted on the current tree")
        return 1 if run.violations else 0
    except Infra as e:
        print("INFRA:", e)
        return 2
    finally:
        run.cleanup()


@prop("C05")
def c05(run):
    nm = ["ExecuteNSortMConcurrent", "ExecuteNConcurrentMSort", "ExecuteNConcurrentMConcurrent"]
    snm = ["ExecuteSelectedNSortMConcurrent", "ExecuteSelectedNConcurrentMSort", "ExecuteSelectedNConcurrentMConcurrent"]
    mix = ["ExecuteMixModel", "ExecuteInverseMixModel"]
    smix = ["ExecuteSelectedRulesMixModel", "ExecuteSelectedRulesInverseMixModel"]
    mc = [("mc_mix", dict(names=T(run, "Names3", "Names4"), sal="Sal3", methods=mix)),
          ("mc_nm", dict(names="Names3", sal=T(run, "Sal2", "Sal3"), methods=nm, nm=T(run, "NMq", "NM3"))),
          ("mc_snm", dict(names="Names3", sal="Sal2", methods=snm, nm="NMq", maxnames=3)),
          ("mc_smix", dict(names="Names3", sal="Sal2", methods=smix, maxnames=3))]
    gen = [("g_mix", dict(names="Names3", sal="Sal3", methods=mix, beh="Beh3")),
           ("g_nm", dict(names="Names3", sal="Sal2", methods=nm, nm="NMq", beh="Beh2")),
           ("g_snm", dict(names=T(run, "Names2", "Names3"), sal="Sal2", methods=snm, nm="NMq",
                          maxnames=T(run, 2, 3), beh="Beh2")),
           ("g_smix", dict(names="Names3", sal="Sal2", methods=smix, maxnames=3, beh="Beh2"))]
    if run.tier == "thorough":
        gen.append(("g_nm4", dict(names="Names4", sal="Sal2", methods=nm, nm="NM4", beh="Beh2")))
    return _exec_check(run, mc, gen, "mix", T(run, 500, 8000), sample=T(run, 3000, 40000),
                       rule="sessions enumerated by TLC from ExecMC (mix, inverse mix, the three N-M models and their selected "
                            "variants; <=3 (thorough: 4) rules, tied saliences, every (N,M) split incl. invalid ones, outcomes ok/fail) "
                            "run under maximal-overlap gate steering on engine and pool, plus seeded random sessions (<=12 rules); "
                            "distinct = distinct (rules, calls, target)")


@prop("C11")
def c11(run):
    groups = [
        ("g_plain", dict(names="Names2", sal="Sal2", beh="Beh3",
                         methods=["Execute", "ExecuteConcurrent", "ExecuteMixModel", "ExecuteInverseMixModel"])),
        ("g_sel", dict(names="Names2", sal="Sal2", beh="Beh3", maxnames=2,
                       methods=["ExecuteSelectedRules", "ExecuteSelectedRulesConcurrent",
                                "ExecuteSelectedRulesWithControlAsGivenSortedName", "ExecuteSelectedRulesMixModel",
                                "ExecuteSelectedRulesInverseMixModel"])),
        ("g_nm", dict(names="Names3", sal="Sal1", beh="Beh3", nm="NMq",
                      methods=["ExecuteNSortMConcurrent", "ExecuteNConcurrentMSort", "ExecuteNConcurrentMConcurrent"])),
        ("g_dag", dict(names="Names2", sal="Sal1", beh="Beh3", dags="Dags22", methods=["ExecuteDAGModel"])),
        ("g_tag", dict(names="Names2", sal="Sal2", beh="Beh3", tag=True,
                       methods=["ExecuteWithStopTagDirect", "ExecuteMixModelWithStopTagDirect"])),
    ]
    mc = [("mc_result", dict(names="Names2", sal="Sal2", dags="Dags22", nm="NMq",
                             methods=["Execute", "ExecuteConcurrent", "ExecuteMixModel", "ExecuteInverseMixModel",
                                      "ExecuteNSortMConcurrent", "ExecuteDAGModel"]))]
    def burst_sessions(rng):
        """Many rules returning at the same moment (exit-burst steering): concurrent writers of the result map."""
        out = []
        for i in range(T(run, 160, 2500)):
            n = rng.randint(6, 12)
            rules = [{"name": "r%d" % (j + 1), "sal": rng.randint(-3, 3), "tpl": rng.choice(["A", "B"])} for j in range(n)]
            beh = {r["name"]: ("topret" if r["tpl"] == "B" else rng.choice(["ret", "ret", "retnil"])) for r in rules}
            names = [r["name"] for r in rules]
            k = rng.randint(1, n - 1)
            m, extra = rng.choice([("ExecuteConcurrent", {}), ("ExecuteDAGModel", {"dag": [names]}),
                                   ("ExecuteNConcurrentMConcurrent", {"n": k, "m": n - k}), ("ExecuteMixModel", {}),
                                   ("ExecuteInverseMixModel", {}), ("ExecuteSelectedRulesConcurrent", {"names": names})])
            c = {"method": m, "via": "direct", "b": True, "names": [], "n": 0, "m": 0, "dag": [], "beh": beh, "tagset": []}
            c.update(extra)
            out.append({"id": 2000000 + i, "target": rng.choice(["engine", "pool"]), "gated": True, "burst": True,
                        "rules": rules, "calls": [c, dict(c)]})
        return out
    return _exec_check(run, mc, groups, "result", T(run, 400, 6000), chain=3, sample=T(run, 6000, 60000), keys=True, extra=burst_sessions,
                       rule="sessions = sequences of up to 3 calls of different methods on one engine / one pool over the same rule set, "
                            "every rule independently not returning / returning a value / returning nil / failing before or inside "
                            "its return (nested and top-level); scenarios enumerated by TLC (<=3 rules) plus seeded random call "
                            "sequences (2-4 calls, <=12 rules, all 21 methods); the result map of every call is compared with Exec's")


@prop("C12")
def c12(run):
    sel = ["ExecuteSelectedRules", "ExecuteSelectedRulesWithControl", "ExecuteSelectedRulesWithControlAsGivenSortedName",
           "ExecuteSelectedRulesConcurrent", "ExecuteSelectedRulesMixModel", "ExecuteSelectedRulesInverseMixModel"]
    snm = ["ExecuteSelectedNSortMConcurrent", "ExecuteSelectedNConcurrentMSort", "ExecuteSelectedNConcurrentMConcurrent"]
    mc = [("mc_sel", dict(names="Names3", sal="Sal2", methods=sel, maxnames=T(run, 2, 3))),
          ("mc_snm", dict(names="Names3", sal="Sal2", methods=snm, nm="NMq", maxnames=3))]
    gen = [("g_sel%d" % i, dict(names="Names3", sal="Sal2", methods=[m], maxnames=T(run, 2, 3), beh="Beh2"))
           for i, m in enumerate(sel)]
    gen += [("g_snm", dict(names=T(run, "Names2", "Names3"), sal="Sal2", methods=snm, nm="NMq",
                           maxnames=T(run, 2, 3), beh="Beh2"))]
    return _exec_check(run, mc, gen, "selected", T(run, 500, 8000), sample=T(run, 4000, 60000),
                       rule="sessions enumerated by TLC: every selected variant x every name list without repetition of length <=2 "
                            "(thorough: <=3) over {r1,r2,r3,zz} (subsets, permutations, unknown names, empty list) x rule sets x outcomes, "
                            "on engine and pool (direct and ...WithSpecifiedEM), plus seeded random sessions with <=12 rules")


@prop("C13")
def c13(run):
    mc = [("mc_dag", dict(names="Names2", sal="Sal1", methods=["ExecuteDAGModel"], dags=T(run, "Dags22", "Dags32")))]
    gen = [("g_dag", dict(names="Names2", sal="Sal1", methods=["ExecuteDAGModel"], dags="Dags22", beh="Beh3")),
           ("g_dag3", dict(names="Names2", sal="Sal1", methods=["ExecuteDAGModel"], dags=T(run, "Dags31", "Dags32"), beh="Beh2"))]
    return _exec_check(run, mc, gen, "dag", T(run, 600, 10000), sample=T(run, 3000, 40000),
                       rule="sessions enumerated by TLC: every layering with <=2 layers x <=2 names (quick; thorough <=3 layers) over "
                            "{r1,r2,zz} incl. empty layers, repeated and unknown names x installed subsets x outcomes, gated; plus "
                            "seeded random DAGs (<=4 layers x <=3 names over <=12 rules)")


@prop("C14")
def c14(run):
    tagm = ["ExecuteWithStopTagDirect", "ExecuteMixModelWithStopTagDirect",
            "ExecuteSelectedRulesWithControlAndStopTag", "ExecuteSelectedRulesWithControlAndStopTagAsGivenSortedName"]
    mc = [("mc_tag", dict(names="Names3", sal="Sal2", methods=tagm[:2])),
          ("mc_seltag", dict(names="Names3", sal="Sal2", methods=tagm[2:], maxnames=T(run, 2, 3)))]
    gen = [("g_tag", dict(names="Names3", sal="Sal2", methods=tagm[:1], beh="Beh2", tag=True)),
           ("g_mixtag", dict(names="Names3", sal="Sal2", methods=tagm[1:2], beh="Beh2", tag=True)),
           ("g_seltag", dict(names=T(run, "Names2", "Names3"), sal="Sal2", methods=tagm[2:], beh="Beh2", tag=True,
                             maxnames=T(run, 2, 3)))]
    return _exec_check(run, mc, gen, "tag", T(run, 500, 8000), sample=T(run, 4000, 60000),
                       rule="sessions enumerated by TLC: the four stop-tag variants x rule sets (<=3 rules, tied saliences) x which rule "
                            "(or none) sets the tag x outcomes x error policy; the tag-less case is the same plan without the gate, so "
                            "'never set' traces are validated against the identical-behaviour requirement; plus seeded random sessions")


import bodyfam as B  # noqa: E402


@prop("C15")
def c15(run):
    return B.check_c15(run)


@prop("C18")
def c18(run):
    return B.check_c18(run)


import rsfam as R  # noqa: E402


@prop("C08")
def c08(run):
    return R.check_c08(run)


@prop("C10")
def c10(run):
    return R.check_c10(run)


import poolfam as P  # noqa: E402


@prop("C17")
def c17(run):
    return P.check_c17(run)


@prop("C06")
def c06(run):
    return P.check_c06(run)


@prop("C16")
def c16(run):
    return P.check_c16(run)


@prop("C07")
def c07(run):
    return P.check_c07(run)


import langfam as L  # noqa: E402


@prop("C02")
def c02(run):
    return L.check_c02(run)


@prop("C01")
def c01(run):
    return L.check_c01(run)


@prop("C20")
def c20(run):
    return L.check_c20(run)


@prop("C03")
def c03(run):
    return L.check_c03(run)
