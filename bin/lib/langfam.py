"""Lang family: C02 (statements, spec/Lang.tla)."""
import json
import os
import random

from vlib import Infra, NCPU, read_ndjson, run_driver, validate_traces, write_ndjson


def lang_describe(sess, evs, idx):
    ev = evs[idx] if idx is not None else {"ev": "incomplete"}
    if ev.get("ev") == "crash":
        return "lang:crash", "program crashed the process: %s" % (ev.get("stderr") or "")[:200]
    obs = ev.get("obs", {})
    key = "lang:case:%s" % ("panic" if obs.get("panic") else ("err" if obs.get("err") else "value"))
    return key, "observation differs from Lang!Observe (err=%s returned=%s val=%s trace=%s host=%s) for program:\n%s" % (
        obs.get("err"), obs.get("returned"), obs.get("val"), json.dumps(obs.get("trace"))[:200], json.dumps(obs.get("host"))[:160],
        ev.get("text", "")[:1500])


def run_lang(run, sessions, label):
    binary = run.go_build("langdrv")
    sp = os.path.join(run.scratch, "sessions-%s.ndjson" % label)
    tp = os.path.join(run.scratch, "traces-%s.ndjson" % label)
    write_ndjson(sp, sessions)
    by_id = {s["id"]: s for s in sessions}
    faults = run_driver(run, binary, sp, tp)
    ns, nev, rejected = validate_traces(run, "LangTrace.tla", "LangTrace.cfg", tp, chunks=min(NCPU, 12))
    run.log("%s: %d programs validated, %d rejected, %d driver faults" % (label, ns, len(rejected), len(faults)))
    for sid, evs, idx in rejected:
        key, what = lang_describe(by_id.get(sid), evs, idx)
        run.violation(key, {"session": by_id.get(sid), "trace": evs, "rejected_event_index": idx, "spec": "LangTrace.tla"}, what)
    stats = {"err": 0, "returned": 0, "events": 0}
    for e in read_ndjson(tp):
        if e.get("ev") == "case":
            stats["err"] += 1 if e["obs"]["err"] else 0
            stats["returned"] += 1 if e["obs"]["returned"] else 0
            stats["events"] += len(e["obs"]["trace"])
            if len(run.samples) < 2 and len(e["obs"]["trace"]) > 3:
                run.samples.append({"text": e["text"], "host0": e["host0"], "observed": e["obs"]})
    return ns, stats


def check_c02(run):
    rng = random.Random(run.seed)
    quick = run.tier == "quick"
    # spec -> code: every small tree enumerated by TLC
    d = run.spec_dir("gen-lang")
    open(os.path.join(d, "g.cfg"), "w").write("SPECIFICATION GSpec\nCONSTANTS\n  GLen = 2\n  GInner = 2\n")
    r = run.tlc("LangGen.tla", "g.cfg", workers=4, cwd=d, timeout=900)
    if not r.ok:
        raise Infra("LangGen failed:\n" + r.tail(30))
    trees = read_ndjson(os.path.join(d, "gen.ndjson"))
    run.cov["enumerated_trees"] = len(trees)
    run.cov["states"] = len(trees)          # one constant-level evaluation per tree
    run.cov["transitions"] = len(trees)
    if quick:
        trees = rng.sample(trees, 4000)
    sessions = [{"id": i + 1, "prog": t["prog"]} for i, t in enumerate(trees)]
    n1, st1 = run_lang(run, sessions, "enum")
    # code -> spec: seeded random programs
    nr = 2500 if quick else 30000
    rs = [{"id": 1000000 + i, "seed": run.seed * 1000003 + i, "depth": rng.choice([2, 3, 3, 4]), "size": rng.choice([15, 25, 40])}
          for i in range(nr)]
    n2, st2 = run_lang(run, rs, "rand")
    run.cov["evaluations"] = n1 + n2
    run.cov["distinct_nontrivial"] = n1 + n2
    run.cov["random_programs"] = {"n": n2, "failing": st2["err"], "returning": st2["returned"], "observer_events": st2["events"]}
    run.cov["enumerated_programs_run"] = {"n": n1, "failing": st1["err"], "returning": st1["returned"], "observer_events": st1["events"]}
    run.assumptions += ["expressions are rendered fully parenthesised (precedence is C01's business); values stay below 2^20 so that TLC's "
                        "32-bit integers suffice", "generated loops are short; the 10000-iteration cut-off belongs to C09"]
    return run.finish("model_checking",
                      "programs = (a) every statement tree of <=2 top-level statements whose compound statements (for, forRange, if/else, "
                      "if/else-if/else) contain every body of <=2 statements over {x+=1, x*=2, ev(x), ev(i), obj.A=x, guarded break / continue / "
                      "return}, enumerated by TLC (86730 trees; quick samples 4000) and rendered by the driver; (b) seeded random programs "
                      "(nesting depth <=4, nested if / else-if / else, for, forRange, break, continue, return at any depth, plain and compound "
                      "assignments to locals, struct fields, map entries, slice elements). Every program is run on the engine and the observer "
                      "trace, result, error flag and final injected state must equal Lang!Observe; all programs are distinct by construction "
                      "(seeded) and non-trivial (>= 3 statements)",
                      explanation="states/transitions count the constant-level evaluations of the reference semantics (one per enumerated tree)")
