"""Lang family: C02 (statements, spec/Lang.tla)."""
import json
import os
import random

from vlib import Infra, NCPU, read_ndjson, run_driver, validate_traces, write_ndjson


def lang_describe(sess, evs, idx):
    ev = evs[idx] if idx is not None else {"ev": "incomplete"}
    if ev.get("ev") == "crash":
        return "lang:crash", "program crashed the process: %s" % (ev.get("stderr") or "")[:200]
    obs = ev.get("obs", {})
    key = "lang:case:%s" % ("panic" if obs.get("panic") else ("err" if obs.get("err") else "value"))
    return key, "observation differs from Lang!Observe (err=%s returned=%s val=%s trace=%s host=%s) for program:\n%s" % (
        obs.get("err"), obs.get("returned"), obs.get("val"), json.dumps(obs.get("trace"))[:200], json.dumps(obs.get("host"))[:160],
        ev.get("text", "")[:1500])


def run_lang(run, sessions, label):
    binary = run.go_build("langdrv")
    sp = os.path.join(run.scratch, "sessions-%s.ndjson" % label)
    tp = os.path.join(run.scratch, "traces-%s.ndjson" % label)
    write_ndjson(sp, sessions)
    by_id = {s["id"]: s for s in sessions}
    faults = run_driver(run, binary, sp, tp)
    ns, nev, rejected = validate_traces(run, "LangTrace.tla", "LangTrace.cfg", tp, chunks=min(NCPU, 12))
    run.log("%s: %d programs validated, %d rejected, %d driver faults" % (label, ns, len(rejected), len(faults)))
    for sid, evs, idx in rejected:
        key, what = lang_describe(by_id.get(sid), evs, idx)
        run.violation(key, {"session": by_id.get(sid), "trace": evs, "rejected_event_index": idx, "spec": "LangTrace.tla"}, what)
    stats = {"err": 0, "returned": 0, "events": 0}
    for e in read_ndjson(tp):
        if e.get("ev") == "case":
            stats["err"] += 1 if e["obs"]["err"] else 0
            stats["returned"] += 1 if e["obs"]["returned"] else 0
            stats["events"] += len(e["obs"]["trace"])
            if len(run.samples) < 2 and len(e["obs"]["trace"]) > 3:
                run.samples.append({"text": e["text"], "host0": e["host0"], "observed": e["obs"]})
    return ns, stats


def check_c02(run):
    rng = random.Random(run.seed)
    quick = run.tier == "quick"
    # spec -> code: every small tree enumerated by TLC
    d = run.spec_dir("gen-lang")
    open(os.path.join(d, "g.cfg"), "w").write("SPECIFICATION GSpec\nCONSTANTS\n  GLen = 2\n  GInner = 2\n")
    r = run.tlc("LangGen.tla", "g.cfg", workers=4, cwd=d, timeout=900)
    if not r.ok:
        raise Infra("LangGen failed:\n" + r.tail(30))
    trees = read_ndjson(os.path.join(d, "gen.ndjson"))
    run.cov["enumerated_trees"] = len(trees)
    run.cov["states"] = len(trees)          # one constant-level evaluation per tree
    run.cov["transitions"] = len(trees)
    if quick:
        trees = rng.sample(trees, 4000)
    sessions = [{"id": i + 1, "prog": t["prog"]} for i, t in enumerate(trees)]
    n1, st1 = run_lang(run, sessions, "enum")
    # code -> spec: seeded random programs
    nr = 2500 if quick else 30000
    rs = [{"id": 1000000 + i, "seed": run.seed * 1000003 + i, "depth": rng.choice([2, 3, 3, 4]), "size": rng.choice([15, 25, 40])}
          for i in range(nr)]
    n2, st2 = run_lang(run, rs, "rand")
    run.cov["evaluations"] = n1 + n2
    run.cov["distinct_nontrivial"] = n1 + n2
    run.cov["random_programs"] = {"n": n2, "failing": st2["err"], "returning": st2["returned"], "observer_events": st2["events"]}
    run.cov["enumerated_programs_run"] = {"n": n1, "failing": st1["err"], "returning": st1["returned"], "observer_events": st1["events"]}
    run.assumptions += ["expressions are rendered fully parenthesised (precedence is C01's business); values stay below 2^20 so that TLC's "
                        "32-bit integers suffice", "generated loops are short; the 10000-iteration cut-off belongs to C09"]
    return run.finish("model_checking",
                      "programs = (a) every statement tree of <=2 top-level statements whose compound statements (for, forRange, if/else, "
                      "if/else-if/else) contain every body of <=2 statements over {x+=1, x*=2, ev(x), ev(i), obj.A=x, guarded break / continue / "
                      "return}, enumerated by TLC (86730 trees; quick samples 4000) and rendered by the driver; (b) seeded random programs "
                      "(nesting depth <=4, nested if / else-if / else, for, forRange, break, continue, return at any depth, plain and compound "
                      "assignments to locals, struct fields, map entries, slice elements). Every program is run on the engine and the observer "
                      "trace, result, error flag and final injected state must equal Lang!Observe; all programs are distinct by construction "
                      "(seeded) and non-trivial (>= 3 statements)",
                      explanation="states/transitions count the constant-level evaluations of the reference semantics (one per enumerated tree)")


# ------------------------------------------------------------------ C01
def check_c01(run):
    rng = random.Random(run.seed)
    quick = run.tier == "quick"
    d = run.spec_dir("gen-expr")
    open(os.path.join(d, "g.cfg"), "w").write("SPECIFICATION GSpec\nCONSTANTS\n  MaxOps = 3\n  GOps = 3\n")
    r = run.tlc("LangExprGen.tla", "g.cfg", workers=4, cwd=d, timeout=900)
    if not r.ok:
        raise Infra("LangExprGen / the parser meta-properties (FlatProps) failed:\n" + r.tail(40))
    shapes = read_ndjson(os.path.join(d, "gen.ndjson"))
    tables = os.path.join(d, "tables.ndjson")
    ntab = len(read_ndjson(tables))
    # FlatProps was evaluated on every operator string with <= 3 operators over all 12 operators
    run.cov["states"] = 1 + 12 + 144 + 1728
    run.cov["transitions"] = len(shapes)
    run.cov["parser_meta_properties"] = "FlatProps on 1885 operator strings: parse total, lossless, precedence-shaped, left-associative"
    run.cov["shapes"] = len(shapes)
    run.cov["dispatch_table_rows"] = ntab
    if quick:
        shapes = rng.sample(shapes, 3400)
    draws = 4 if quick else 30
    sessions = [{"id": i + 1, "seed": run.seed * 7919 + i, "draws": draws, "tokens": s["tokens"], "tree": s["tree"], "tables": tables}
                for i, s in enumerate(shapes)]
    binary = run.go_build("exprdrv")
    sp = os.path.join(run.scratch, "sessions-expr.ndjson")
    tp = os.path.join(run.scratch, "out-expr.ndjson")
    write_ndjson(sp, sessions)
    faults = run_driver(run, binary, sp, tp)
    n = ok = skipped = 0
    kinds = {}
    for e in read_ndjson(tp):
        if e.get("ev") == "crash":
            run.violation("expr:crash", {"event": e}, "expression evaluation crashed the process: %s" % (e.get("stderr") or "")[:200])
        if e.get("ev") != "case":
            continue
        n += 1
        if e.get("skipped"):
            skipped += 1
            continue
        if e.get("ok"):
            ok += 1
            if len(run.samples) < 3 and e.get("expected"):
                run.samples.append({"expr": e["expr"], "expected": e["expected"], "got": e["got"]})
            continue
        kinds[e.get("kind")] = kinds.get(e.get("kind"), 0) + 1
        if e.get("kind") == "compile":
            raise Infra("a generated expression does not compile (generator problem): %s\n%s" % (e.get("why"), e.get("text")))
        run.violation("expr:%s" % e.get("kind"), {"case": e},
                      "expression `%s`: expected %s, engine gave %s (%s)\n%s" % (
                          e.get("expr"), e.get("expected") or "an error", e.get("got"), e.get("why"), e.get("text", "")))
    run.log("expressions: %d evaluations, %d agree, %d unspecified (skipped), mismatches %s" % (n, ok, skipped, kinds))
    run.cov["evaluations"] = n
    run.cov["distinct_nontrivial"] = len(sessions)
    run.cov["traces_validated_against_impl"] = n
    run.cov["unspecified_skipped"] = skipped
    run.assumptions += ["TLC decides structure (parse tree of every token string) and dispatch (primitive per operator and operand classes); "
                        "the 64-bit and float64 primitives are native Go operations of the driver, because TLC has 32-bit integers and no floats",
                        "int/uint mixes: + - * compared on the 64-bit pattern, / only with both operands in [0, 2^63); result class left open"]
    return run.finish("model_checking",
                      "shapes = every operand/operator string with <= 3 binary operators over || && == < + - * / with one or two parenthesis "
                      "pairs at every position and `!` before every operand or group (5250 strings that parse), each with the tree of the "
                      "reference parser (Parse, checked by FlatProps on all 1885 parenthesis-free strings over the 12 operators); per shape "
                      "4 (thorough 30) draws of operand kinds (literals, locals, injected int8..int64, uint8..uint64, float32/64, string, bool, "
                      "@name/@id/@desc/@sal) and values (boundaries of every width, 2^53+-1, 2^63-1, -2^63, 2^64-1, negatives, near pairs); "
                      "a shape is distinct by its token string",
                      explanation="states = operator strings on which the parser meta-properties were evaluated; transitions = parsed shapes")


# ------------------------------------------------------------------ C20
def check_c20(run):
    rng = random.Random(run.seed)
    quick = run.tier == "quick"
    d = run.spec_dir("gen-lines")
    open(os.path.join(d, "g.cfg"), "w").write(
        "SPECIFICATION GSpec\nCONSTANTS\n  GLead = {%s}\n  GPre = {%s}\n  GFill = {%s}\n  GFar = {%s}\n" % (
            ("0, 1, 3", "0, 2", "0, 2", "70000") if quick else ("0, 1, 2, 3", "0, 1, 2", "0, 1, 2", "65530, 65536, 131080")))
    r = run.tlc("LangLines.tla", "g.cfg", workers=4, cwd=d, timeout=900)
    if not r.ok:
        raise Infra("LangLines failed:\n" + r.tail(30))
    cases = read_ndjson(os.path.join(d, "gen.ndjson"))
    run.cov["states"] = len(cases)
    run.cov["transitions"] = len(cases)
    # every fourth layout is submitted with \r\n line ends (same lines, same line numbers)
    # the way the text reaches the engine: one compile, or as an incremental / full update (also of a pool) of an earlier
    # text in which the faulty rule stood alone on line 1: the cited lines are those of the text compiled last
    routes = ["", "", "incr", "", "poolincr", "", "", "pool", "", "incr", "", "poolupd", ""]
    sessions = [dict(c, id=i + 1, crlf=(i % 4 == 3), route=routes[i % len(routes)]) for i, c in enumerate(cases)]
    binary = run.go_build("langdrv")
    sp = os.path.join(run.scratch, "sessions-lines.ndjson")
    tp = os.path.join(run.scratch, "traces-lines.ndjson")
    write_ndjson(sp, sessions)
    by_id = {s["id"]: s for s in sessions}
    run_driver(run, binary, sp, tp)
    ns, nev, rejected = validate_traces(run, "LangLinesTrace.tla", "LangLinesTrace.cfg", tp)
    ran = skipped = 0
    per_class = {}
    for e in read_ndjson(tp):
        if e.get("ev") == "lcase":
            ran += 1
            per_class[e["class"]] = per_class.get(e["class"], 0) + 1
            if len(run.samples) < 2 and e["cited"]:
                run.samples.append({"text": e["text"], "fault_line": e["fault"], "cited": e["cited"], "class": e["class"]})
        elif e.get("ev") == "lskip":
            skipped += 1
    run.log("lines: %d layouts run, %d not in the grammar (skipped), %d rejected" % (ran, skipped, len(rejected)))
    if skipped * 20 > len(cases):
        raise Infra("more than 5%% of the layouts do not compile (%d of %d): generator or driver problem" % (skipped, len(cases)))
    for sid, evs, idx in rejected:
        ev = evs[idx] if idx is not None else {}
        if ev.get("ev") == "crash":
            run.violation("lines:crash", {"session": by_id.get(sid), "trace": evs}, "layout crashed the process")
            continue
        sym = "panic" if ev.get("panic") else ("noerror" if not ev.get("err") else
                                               ("nocite" if not ev.get("cited") else "wrongline"))
        key = "lines:%s:%s" % (ev.get("class"), sym)
        run.violation(key, {"session": by_id.get(sid), "trace": evs},
                      "fault class %s in %s: the failing construct starts on line %s (statement on line %s), the error cites %s: %s\n%s" % (
                          ev.get("class"), by_id.get(sid, {}).get("encl"), ev.get("fault"), ev.get("stmt"), ev.get("cited"),
                          (ev.get("msg") or "")[:200], ev.get("text", "")))
    run.cov["evaluations"] = ran
    run.cov["distinct_nontrivial"] = ran
    run.cov["per_class"] = per_class
    run.cov["layouts_outside_grammar"] = skipped
    run.assumptions += ["a cited position is recognised by the pattern `line N, column`", "`always` classes: arithmetic faults, comparison and "
                        "logic type faults, failing function / method / three-level calls, failing stores; for the other classes a position is "
                        "optional but must be right when given"]
    return run.finish("model_checking",
                      "layouts = leading blank/comment lines x preceding rules x filler statements x enclosing statement kind (top level, if, "
                      "else-if, else, for, forRange, if inside for, conc) x 25 faulty statements of 10 fault classes x one-line / two-line "
                      "layout, plus faults inside if / else-if / for conditions; the specification computes the line of the failing construct "
                      "from the layout; enumerated completely by TLC (about 13 000 layouts in the quick tier, more in the thorough tier); distinct = layouts that compile",
                      exhaustive=True,
                      explanation="states = layouts whose line arithmetic was checked (LayoutSane) and generated")


# ------------------------------------------------------------------ C03
def check_c03(run):
    quick = run.tier == "quick"
    d = run.spec_dir("gen-data")
    r = run.tlc("LangData.tla", "LangData.cfg", workers=2, cwd=d, timeout=600)
    if not r.ok:
        raise Infra("LangData failed:\n" + r.tail(30))
    cells = read_ndjson(os.path.join(d, "gen.ndjson"))
    run.cov["states"] = len(cells)
    run.cov["transitions"] = len(cells)
    draws = 3 if quick else 24
    sessions = [dict(c, id=i + 1, seed=run.seed * 104729 + i, draws=draws) for i, c in enumerate(cells)]
    binary = run.go_build("datadrv")
    sp = os.path.join(run.scratch, "sessions-data.ndjson")
    tp = os.path.join(run.scratch, "out-data.ndjson")
    write_ndjson(sp, sessions)
    run_driver(run, binary, sp, tp)
    n = ok = unspec = skipped = 0
    kinds = {}
    for e in read_ndjson(tp):
        if e.get("ev") == "crash":
            run.violation("data:crash", {"event": e}, "a cell crashed the process: %s" % (e.get("stderr") or "")[:200])
        if e.get("ev") != "case":
            continue
        n += 1
        if e.get("skipped"):
            if e["skipped"].startswith("unspecified"):
                unspec += 1
            else:
                skipped += 1
            continue
        if e.get("ok"):
            ok += 1
            continue
        c = e.get("cell", {})
        if e.get("kind") == "compile":
            raise Infra("a generated cell does not compile: %s\n%s" % (e.get("why"), e.get("text")))
        kinds[e.get("kind")] = kinds.get(e.get("kind"), 0) + 1
        run.violation("data:%s:%s:%s" % (c.get("what"), c.get("path"), e.get("kind")), {"case": e},
                      "%s through %s into/as %s from %s: %s - %s\n%s" % (c.get("what"), c.get("path"), c.get("kind"), c.get("src"),
                                                                      e.get("kind"), e.get("why"), e.get("text")))
    run.log("data: %d executions, %d conform, %d in unspecified cells (contained), %d not applicable, mismatches %s" % (n, ok, unspec, skipped, kinds))
    run.samples.append({"cell": cells[0], "note": "each cell is run with %d draws of representable values" % draws})
    run.cov["evaluations"] = n
    run.cov["distinct_nontrivial"] = len([c for c in cells if c["outcome"] == "conv"])
    run.cov["traces_validated_against_impl"] = ok
    run.cov["unspecified_cells_contained"] = unspec
    run.assumptions += ["values are drawn representable in source and target kind (integral, within both ranges; float32-exact fractions)",
                        "`everything else untouched` is checked on a snapshot of the whole host object graph (struct, nested struct, "
                        "maps, slice, array, pointer scalar)"]
    return run.finish("model_checking",
                      "cells = {store, read, read of a missing key, call, shadowing} x access-path form (struct field one and two levels deep, "
                      "pointer scalar, map with string / int / variable key, slice with literal / variable index, array through pointer, map and "
                      "slice held in a struct) x 14 target kinds x 8 source kinds, with the promised outcome, enumerated completely by TLC "
                      "(1896 cells); every cell is executed with 3 (thorough 24) value draws; non-trivial = cells with a promise (conv)",
                      exhaustive=True,
                      explanation="states = cells of the matrix generated (and sanity-checked) by TLC")
