"""C08 (RuleSet.tla) and C10 (Compile.tla)."""
import base64
import json
import os
import random
import re

from vlib import Infra, NCPU, read_ndjson, run_driver, validate_traces, write_ndjson


def _gen(run, module, cfgname, cfgtext, tag):
    d = run.spec_dir("gen-" + tag)
    open(os.path.join(d, cfgname), "w").write(cfgtext)
    r = run.tlc(module, cfgname, workers=4, cwd=d, timeout=1500)
    p = os.path.join(d, "gen.ndjson")
    if not os.path.exists(p) or not r.ok:
        raise Infra("generator %s failed:\n%s" % (tag, r.tail(40)))
    out = read_ndjson(p)
    run.log("generated %d histories (%s) in %.1fs" % (len(out), tag, r.wall))
    return out


def _mc(run, module, cfgname, cfgtext):
    d = run.spec_dir()
    open(os.path.join(d, cfgname), "w").write(cfgtext)
    return run.model_check(module, cfgname, workers=min(NCPU, 12))


def _run(run, sessions, label, module, cfg, describe, nshards=None):
    binary = run.go_build("rsdrv")
    sp = os.path.join(run.scratch, "sessions-%s.ndjson" % label)
    tp = os.path.join(run.scratch, "traces-%s.ndjson" % label)
    write_ndjson(sp, sessions)
    by_id = {s["id"]: s for s in sessions}
    faults = run_driver(run, binary, sp, tp, nshards=nshards)
    ns, nev, rejected = validate_traces(run, module, cfg, tp)
    run.log("%s: %d sessions, %d events validated, %d rejected, %d driver faults" % (label, ns, nev, len(rejected), len(faults)))
    confirmed = None
    for sid, evs, idx in rejected:
        sess = by_id.get(sid)
        if any(e.get("ev") == "timeout" for e in evs):
            # "returns normally": a session that did not come back counts only if it does not come back again,
            # alone, with ten times the budget (twice)
            if confirmed is None:
                n_to = 0
                for k in range(2):
                    rs = os.path.join(run.scratch, "sessions-%s-repro%d.ndjson" % (label, k))
                    rt = os.path.join(run.scratch, "traces-%s-repro%d.ndjson" % (label, k))
                    for p in (rs, rt):
                        if os.path.exists(p):
                            os.remove(p)
                    write_ndjson(rs, [sess])
                    run_driver(run, binary, rs, rt, nshards=1, extra=("-calltimeout", "200s"), timeout=3600)
                    n_to += 1 if any(e.get("ev") == "timeout" for e in read_ndjson(rt)) else 0
                if n_to < 2:
                    raise Infra("session %s hit the driver watchdog but came back when re-run alone (not a verdict)" % sid)
                confirmed = sid
            if sid != confirmed:
                continue
            run.violation("%s:hang" % label, {"session": sess, "trace": evs, "spec": module},
                          "an entry point did not return (session %s hung again twice, alone, with ten times the budget): %s" % (
                              sid, json.dumps(sess)[:300]))
            continue
        key, what = describe(sess, evs, idx)
        run.violation(key, {"session": sess, "trace": evs, "rejected_event_index": idx, "spec": module}, what)
    if not run.samples:
        lines = open(tp).read().split("\n")
        run.samples.append({"session": sessions[0], "trace_head": [json.loads(l) for l in lines[:6] if l]})
    return ns


# ------------------------------------------------------------------ C08
def rs_describe(sess, evs, idx):
    ev = evs[idx] if idx is not None else {"ev": "incomplete"}
    kinds = [e.get("kind") for e in evs[:(idx or 0) + 1] if e.get("ev") == "rs_op"]
    last = kinds[-1] if kinds else "?"
    if ev.get("ev") == "crash":
        key = "ruleset:crash"
    elif ev.get("ev") == "rs_op":
        key = "ruleset:op:%s:%s" % (ev.get("kind"), "panic" if ev.get("panic") else "ok=%s" % ev.get("ok"))
    else:
        key = "ruleset:state-after:%s" % last
    return key, "after operations %s the projected rule set is not the denoted one: event #%s %s (session %s)" % (
        kinds, idx, json.dumps(ev)[:300], evs[0].get("id"))


def hist_to_session(sid, ops, rng, universe):
    out = []
    # in some sessions a repeated operation is submitted as the byte-identical text
    # (the body version is then a function of the operation, not of its position)
    stable = rng.random() < 0.35
    for i, op in enumerate(ops):
        v = i + 1
        if stable:
            v = 100 + (sum(ord(c) for c in json.dumps(op, sort_keys=True)) % 800)
        rules = [{"name": r["name"], "sal": r["sal"], "desc": "d%d-%s" % (v, r["name"]), "ver": v}
                 for r in op.get("rules", [])]
        o = {"kind": op["kind"], "rules": rules, "names": op.get("names", [])}
        if op["kind"] == "bad":
            o["incr"] = rng.random() < 0.5
            o["text"] = rng.choice(['rule "a" "x" begin a = = 1 end', 'rule "q" begin', 'rule "a" "d" salience x begin end',
                                    'rule "a" "d" begin end rule "a" "e" begin end', '   ', 'rule "b" begin # end'])
        out.append(o)
    return {"id": sid, "kind": "ruleset", "ops": out, "universe": universe}


def check_c08(run):
    rng = random.Random(run.seed)
    quick = run.tier == "quick"
    _mc(run, "RuleSetMC.tla", "mc.cfg",
        "SPECIFICATION RSSpec\nCHECK_DEADLOCK FALSE\nCONSTANTS\n  RSNames <- N3\n  RSSal <- %s\n  RSMaxOps = 3\nINVARIANT Denotes\n"
        % ("S2" if quick else "S3"))
    # the incremental insertion as implemented (slices over a heap, shadowed inner slice, unassigned `mid`, live index
    # map) refines RuleSet!Incr for every small container, text, processing order and append growth policy; and the
    # refinement fails if every append allocated a fresh array (what the code relies on not happening)
    d = run.spec_dir("impl")
    icfg = ("SPECIFICATION ISpec\nCONSTANTS\n  Names = {\"a\", \"b\", \"c\", \"d\"}\n  Sals = {0, 1, 2}\n  MaxOld = %d\n  MaxNew = %d\n"
            "  Slack = 1\n  AlwaysFresh = %s\n")
    open(os.path.join(d, "i1.cfg"), "w").write(icfg % (3, 2 if quick else 3, "FALSE"))
    r1 = run.tlc("RuleSetImpl.tla", "i1.cfg", workers=4, cwd=d, timeout=3000)
    if not r1.ok:
        raise Infra("RuleSetImpl does not refine RuleSet!Incr on the model (a design counterexample, not a verdict on the code):\n" + r1.tail(30))
    open(os.path.join(d, "i2.cfg"), "w").write(icfg % (3, 2, "TRUE"))
    r2 = run.tlc("RuleSetImpl.tla", "i2.cfg", workers=2, cwd=d, timeout=900)
    if r2.ok or "Assumption" not in r2.out:
        raise Infra("vacuity guard: RuleSetImpl with AlwaysFresh = TRUE should not refine")
    m = re.search(r'<<"olds", (\d+), "news", (\d+)>>', r1.out)
    inst = int(m.group(1)) * int(m.group(2)) * 2 if m else 0
    run.cov["impl_refinement_instances"] = inst
    run.cov["states"] = run.cov.get("states", 0) + inst
    run.cov["transitions"] = run.cov.get("transitions", 0) + inst
    run.log("RuleSetImpl refines RuleSet!Incr on %d (container, text, growth) instances; the AlwaysFresh variant does not" % inst)
    recs = _gen(run, "RuleSetGen.tla", "g.cfg",
                "SPECIFICATION RSSpec\nCHECK_DEADLOCK FALSE\nCONSTANTS\n  RSNames <- N3\n  RSSal <- S2\n  RSMaxOps = 0\n  GMaxOps = %d\n"
                % (3 if quick else 4), "hist")
    if not quick and len(recs) > 25000:
        recs = rng.sample(recs, 25000)
    uni = ["a", "b", "c", "d", "e", "zz"]
    sessions = [hist_to_session(i + 1, r["ops"], rng, uni) for i, r in enumerate(recs)]
    run.cov["exhaustive_histories"] = len(sessions)
    # seeded random longer histories over 8 names
    names = ["n%d" % i for i in range(8)]
    sid = len(sessions)
    for i in range(300 if quick else 6000):
        ops = []
        style = rng.randrange(4)
        for j in range(rng.randint(2, 12)):
            k = rng.choice(["full", "incr", "incr", "incr", "remove", "remove", "bad"])
            # style 3: saliences at the ends of the 64-bit range (differences that do not fit in 64 bits)
            sal = lambda: [rng.randint(-1, 1), rng.randint(-10, 10), rng.randint(-10**9, 10**9),
                           rng.choice([9223372036854775807, -9223372036854775807, 9000000000000000000, -9000000000000000000,
                                       4611686018427387904, -4611686018427387905, 0, 1, -1])][style]
            if k in ("full", "incr"):
                ns = rng.sample(names, rng.randint(1, 4))
                ops.append({"kind": k, "rules": [{"name": n, "sal": sal()} for n in ns]})
            elif k == "remove":
                ops.append({"kind": k, "names": rng.sample(names + ["zz"], rng.randint(0, 3))})
            else:
                ops.append({"kind": "bad"})
        sid += 1
        sessions.append(hist_to_session(sid, ops, rng, names + ["zz"]))
    ns = _run(run, sessions, "ruleset", "RuleSetTrace.tla", "RuleSetTrace.cfg", rs_describe)
    if not run.violations:
        rs_self_test(run)
    run.cov["evaluations"] = ns
    run.cov["distinct_nontrivial"] = len({json.dumps(s["ops"], sort_keys=True) for s in sessions if len(s["ops"]) >= 2})
    run.assumptions += ["the implementation state is projected through the exported Kc field, IsExist and a sort-model run of echo bodies"]
    return run.finish("model_checking",
                      "histories = every sequence of <=3 (thorough: <=4, sampled to 25000) operations over an alphabet of 14 texts/removals "
                      "(new name, same name with equal/changed salience, several rules per call, ties, removal of present/absent/no names, "
                      "a text that does not compile) enumerated by TLC, plus seeded random histories (<=12 operations over 8 names, "
                      "saliences up to +-1e9); the full projected state is validated after every operation; non-trivial = >= 2 operations")


def rs_self_test(run):
    binary = run.go_build("rsdrv")
    sess = [hist_to_session(1, [{"kind": "full", "rules": [{"name": "a", "sal": 1}, {"name": "b", "sal": 2}]},
                                {"kind": "incr", "rules": [{"name": "a", "sal": 3}]}], random.Random(1), ["a", "b", "zz"])]
    sp = os.path.join(run.scratch, "rst-s.ndjson")
    tp = os.path.join(run.scratch, "rst-t.ndjson")
    write_ndjson(sp, sess)
    run_driver(run, binary, sp, tp, nshards=1)
    evs = read_ndjson(tp)
    bad = json.loads(json.dumps(evs))
    bad[-1]["run"][0]["ver"] = 1          # the replaced body still runs
    bad2 = json.loads(json.dumps(evs))
    bad2[-1]["sorted"].reverse()          # order not by the new salience
    allp = os.path.join(run.scratch, "rst-all.ndjson")
    with open(allp, "w") as f:
        for n, v in enumerate([evs, bad, bad2]):
            for e in v:
                if e["ev"] == "session":
                    e = dict(e, id=n)
                f.write(json.dumps(e) + "\n")
    saved = dict(run.cov)
    _, _, rejected = validate_traces(run, "RuleSetTrace.tla", "RuleSetTrace.cfg", allp, chunks=1)
    run.cov.clear()
    run.cov.update(saved)
    if 0 in [s for s, _, _ in rejected]:
        run.cov["binding_self_test"] = "skipped: the uncorrupted reference trace was rejected"
        return
    if sorted(s for s, _, _ in rejected) != [1, 2]:
        raise Infra("ruleset binding self-test failed: %s" % [s for s, _, _ in rejected])
    run.cov["binding_self_test"] = "good trace accepted; stale body version and wrong order rejected"


# ------------------------------------------------------------------ C10
VALID_BODY = r'''rule "%(n)s" "%(d)s" salience %(s)d
begin
  echo(@name, @sal, @desc, 2)
  // a comment
  x = 1 + 2 * 3
  y = (x - 1) / 2
  if x > 3 && !(y == 2) || false {
    s = "lit" + @name
    m["k"] = x
  } else if x <= 7 {
    arr[0] = y
  } else {
    obj.F = 3.5
  }
  for i = 0; i < 3; i += 1 {
    if i == 1 { continue }
    if i == 2 { break }
    x *= 2
  }
  forRange k := arr {
    z = arr[k]
  }
  conc {
    a = f(x, "s", true)
    obj.M(1)
    obj.In.M(x)
  }
  t = @id + @sal
  u = @desc
  return f(x, y)
end
'''

TOKEN = re.compile(r'"(?:\\.|[^"\\])*"|//[^\n]*\n|[A-Za-z_][A-Za-z0-9_.]*|\d+\.\d+|\d+|&&|\|\||[=!<>+\-*/:]=|[^\sA-Za-z0-9_]|\s+')


def valid_text(rules):
    return "".join(VALID_BODY % {"n": r["name"], "d": r["desc"], "s": r["sal"]} for r in rules)


def mutants(text, rng, n):
    toks = TOKEN.findall(text)
    idx = [i for i, t in enumerate(toks) if not t.isspace()]
    out = []
    pool = ["begin", "end", "rule", "{", "}", "(", ")", "=", "==", ";", ",", "if", "else", "for", "forRange", "return", "conc",
            "\"", "salience", "1", "x", "@name", "#", "$", "\u4e2d", "!", "&&", "[", "]", ":=", "break", "continue", "nil", ".", "-", "1.", "e5"]
    for _ in range(n):
        t = list(toks)
        k = rng.randrange(6)
        i = rng.choice(idx)
        if k == 0:
            del t[i]
        elif k == 1:
            t.insert(i, t[i])
        elif k == 2:
            j = rng.choice(idx)
            t[i], t[j] = t[j], t[i]
        elif k == 3:
            t[i] = rng.choice(pool)
        elif k == 4:
            t = t[:i]
        else:
            t.insert(i, rng.choice(pool))
        out.append("".join(t))
    return out


def byte_mutants(text, rng, n):
    b = bytearray(text.encode())
    out = []
    for _ in range(n):
        c = bytearray(b)
        for _ in range(rng.randint(1, 4)):
            k = rng.randrange(3)
            i = rng.randrange(len(c))
            if k == 0:
                c[i] = rng.randrange(256)
            elif k == 1:
                del c[i]
            else:
                c.insert(i, rng.randrange(256))
        out.append(bytes(c))
    return out


def cm_describe(sess, evs, idx):
    ev = evs[idx] if idx is not None else {"ev": "incomplete"}
    if ev.get("ev") == "crash":
        key = "compile:crash:%s" % (sess or {}).get("class")
        return key, "compile session crashed the process: %s (session %s)" % ((ev.get("stderr") or "")[:200], evs[0].get("id"))
    prev = [(e["ep"], e["ok"]) for e in evs[:idx] if e.get("ev") == "cm_submit"]
    sym = "panic" if ev.get("panic") else ("ok=%s" % ev.get("ok"))
    key = "compile:%s:%s:%s" % ((sess or {}).get("class"), ev.get("ep"), sym)
    txt = (sess or {}).get("text", "")[:120]
    return key, "text class %s: %s returned %s (post %s, unchanged=%s) after %s - not a step of Compile; text starts %r (session %s)" % (
        (sess or {}).get("class"), ev.get("ep"), sym, [p["name"] for p in ev.get("post", [])], ev.get("unchanged"), prev, txt, evs[0].get("id"))


def check_c10(run):
    rng = random.Random(run.seed)
    quick = run.tier == "quick"
    _mc(run, "Compile.tla", "mc.cfg",
        "SPECIFICATION CmSpec\nCHECK_DEADLOCK FALSE\nCONSTANTS\n  CmNames = {\"a\", \"b\"%s}\n  CmSal = {0, 1}\nINVARIANTS Agreement ClassRespected\n"
        % ("" if quick else ", \"c\""))
    base = [{"name": "a", "sal": 2, "desc": "base-a", "ver": 1}, {"name": "b", "sal": 2, "desc": "base-b", "ver": 1},
            {"name": "c", "sal": -1, "desc": "base-c", "ver": 1}]
    sessions = []

    def add(text, cls, declared=None, flags=None):
        s = {"id": len(sessions) + 1, "kind": "compile", "class": cls, "base": base, "declared": declared or [],
             "selffirst": rng.random() < 0.35, "cleared": rng.random() < 0.25, "baseincr": rng.random() < 0.4}
        s.update(flags or {})
        if isinstance(text, bytes):
            try:
                s["text"] = text.decode("utf-8")
                if not s["text"]:
                    raise UnicodeDecodeError("utf-8", b"", 0, 0, "empty")
            except UnicodeDecodeError:
                s["text"] = ""
                s["text64"] = base64.b64encode(text).decode()
        else:
            s["text"] = text
        sessions.append(s)

    # generator-built classes
    valids = []
    for i in range(40 if quick else 300):
        k = rng.randint(1, 4)
        names = rng.sample(["a", "b", "c", "d", "e", "7", "x_1"], k)
        decl = [{"name": n, "sal": rng.choice([-5, 0, 2, 2, 9]), "desc": "new-" + n, "ver": 2} for n in names]
        t = valid_text(decl)
        valids.append(t)
        add(t, "valid", decl)
        dup = valid_text(decl + [dict(rng.choice(decl), desc="again")])
        add(dup, "dup")
    # the states a text can meet, crossed completely with texts that mix a new first-running rule with a re-definition of an
    # installed rule (same and changed salience): text compiled first / base installed incrementally / pool emptied first
    staged = [[("x_1", 9), ("c", -1)], [("x_1", 9), ("c", 0)], [("d", 9), ("b", 2)], [("d", 9), ("a", 2), ("c", 5)], [("e", -9), ("a", 7)]]
    for st in staged:
        decl = [{"name": n, "sal": sl, "desc": "new-" + n, "ver": 2} for n, sl in st]
        t = valid_text(decl)
        for sf in (False, True):
            for cl in (False, True):
                for bi in (False, True):
                    add(t, "valid", decl, {"selffirst": sf, "cleared": cl, "baseincr": bi})
    for b in ["", " ", "\n\t  \n", "   \r\n"]:
        add(b, "blank")
    small = 'rule "d" "new-d" salience 1 begin\n  echo(@name, @sal, @desc, 2)\n  x = 1 + 2\n  if x > 2 { return x }\nend\n'
    add(small, "valid", [{"name": "d", "sal": 1, "desc": "new-d", "ver": 2}])
    # lexer-level oddities outside and inside strings
    for t in ['rule "b" begin # return 2 end', 'rule "b" "d" begin $ end', 'rule "b" begin x = 1 ~ 2 end', 'rule "b" begin s = "#$~" end',
              'rule "\u4e2d" begin end', 'rule "b" begin \u4e2d end', 'rule "b" begin x = 1 end @', 'rule "b" begin x = 1 end rule',
              'rule "b" begin x = 1 end\x00', 'RULE "b" BEGIN END',
              # tokens behind the last rule
              '\ufeffrule "b" begin x = 1 end', 'rule "b" begin x = 1 end\ufeff', '\ufeff',
              'rule "b" begin x = 1 end xyz', 'rule "b" begin x = 1 end end', 'rule "b" begin x = 1 end }', 'rule "b" begin x = 1 end 5',
              'rule "b" begin x = 1 end "s"', 'rule "b" begin x = 1 end begin', 'rule "b" begin x = 1 end x = 2', 'rule "b" begin end ;', 'rule "b" "d" salience -0 begin end', 'rule "b" salience 99999999999999999999 begin end',
              'rule "" begin end', 'rule "b" "" begin end', 'rule "b" begin m[""] = 1 end', 'rule "b" begin x = 1e5 y = .5 z = 5. end',
              'rule "b" begin return end rule "c" begin return 1 end', 'rule "b" begin if true { } end', 'rule "b" begin conc { } end',
              'rule "b" begin for i = 0; i < 1; i += 1 { } end', 'rule "b" begin a.b.c.d = 1 end', 'rule "b" begin x = a.b.c.d(1) end',
              'rule "b" begin x = -1 - -1 end', 'rule "b" begin x = "unterminated end', 'rule "b" begin x = 1 // c\nend', 'rule "b" begin x = 1 // c']:
        add(t, "other")
    # token-level mutants of the construct-covering text and of a small text
    nm = 220 if quick else 6000
    one = valid_text([{"name": "m", "sal": 3, "desc": "mut"}])
    for t in mutants(one, rng, nm // 3) + mutants(small, rng, nm // 3 * 2):
        add(t, "other")
    for t in byte_mutants(small, rng, 60 if quick else 2000) + byte_mutants(one, rng, 30 if quick else 1000):
        add(t, "other")
    for i in range(40 if quick else 1500):
        add(bytes(rng.randrange(256) for _ in range(rng.randint(1, 60))), "other")
    ns = _run(run, sessions, "compile", "CompileTrace.tla", "CompileTrace.cfg", cm_describe)
    acc = rej = 0
    for e in read_ndjson(os.path.join(run.scratch, "traces-compile.ndjson")):
        if e.get("ev") == "cm_submit" and e.get("ep") == "builder_full":
            if e.get("ok"):
                acc += 1
            else:
                rej += 1
    run.cov["texts_accepted_by_full_build"] = acc
    run.cov["texts_rejected_by_full_build"] = rej
    run.cov["evaluations"] = ns * 5
    run.cov["texts"] = ns
    run.cov["distinct_nontrivial"] = len({s.get("text") or s.get("text64") for s in sessions if s["class"] in ("other", "dup")})
    run.assumptions += ["the space of byte strings is sampled (valid texts, token-level and byte-level mutants, random bytes), not exhausted",
                        "compiles are never run concurrently inside one process"]
    return run.finish("model_checking",
                      "texts = generator-built valid texts using every construct (must be accepted), texts defining a name twice and blank texts "
                      "(must be rejected), hand-picked lexer/grammar corner cases, token-level mutants (delete/duplicate/swap/replace/insert one "
                      "token, cut at a token boundary), byte-level mutants and random bytes; every text goes to all five entry points from the "
                      "same installed 3-rule set; distinct = distinct non-valid texts")
