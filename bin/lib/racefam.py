"""C19: lock discipline (spec/Locks.tla), TryLock bits of the hooks in the pool / exec traces, and the Go race
detector used as the recorder of conflicting accesses in the concurrent scenarios."""
import json
import os
import random
import re
import subprocess

from vlib import GOENV, Infra, NCPU, read_ndjson, run_driver, validate_traces, write_ndjson

GENGINE = "github.com/bilibili/gengine/"


def parse_races(text):
    """[(kindA, funcA, fileA, kindB, funcB, fileB)] for reports both of whose accesses are in gengine's own code"""
    out = []
    for rep in text.split("WARNING: DATA RACE")[1:]:
        rep = rep.split("==================")[0]
        accesses = []
        cur = None
        for ln in rep.split("\n"):
            m = re.match(r"^(Read|Write|Previous read|Previous write|Atomic read|Atomic write|Previous atomic \w+) at 0x[0-9a-f]+ by (?:main )?goroutine", ln)
            if m:
                cur = {"kind": m.group(1).lower().replace("previous ", ""), "frames": []}
                accesses.append(cur)
                continue
            if ln.startswith("Goroutine ") or ln.startswith("Mutex "):
                cur = None
                continue
            if cur is not None:
                m = re.match(r"^  (\S+)\(\)?", ln)
                if m and not ln.startswith("      "):
                    cur["frames"].append([m.group(1).rstrip("()"), ""])
                m = re.match(r"^      (\S+):(\d+)", ln)
                if m and cur["frames"]:
                    cur["frames"][-1][1] = m.group(1)
        if len(accesses) < 2:
            continue
        tops = []
        direct = []
        for a in accesses[:2]:
            # the innermost frame that is gengine's own code (not reflect / runtime / the harness)
            top = None
            direct.append(bool(a["frames"]) and a["frames"][0][0].startswith(GENGINE))
            for fn, fl in a["frames"]:
                if fn.startswith(GENGINE) and "/verif" not in fl:
                    top = (a["kind"], fn[len(GENGINE):], os.path.basename(fl))
                    break
                if fn.startswith(("reflect.", "runtime.", "sync.", "sync/", "internal/")):
                    continue
                break          # user / harness code touches the memory itself: not gengine's state
            tops.append(top)
        for i in (0, 1):
            # an access made through sync/atomic is reported without its caller (the stack is only the atomic
            # function itself).  When the OTHER access is gengine's own statement (innermost frame in gengine, not
            # reflection into user data), the memory is gengine's own, and nothing outside gengine can address it.
            fr = accesses[i]["frames"]
            if tops[i] is None and fr and all(fn.startswith("sync/atomic.") for fn, _ in fr) and tops[1 - i] and direct[1 - i]:
                tops[i] = (accesses[i]["kind"], fr[0][0], "(no caller frame)")
        if tops[0] and tops[1]:
            out.append(tops[0] + tops[1])
    return out


def race_key(t):
    a = "%s@%s" % (t[1], t[2])
    b = "%s@%s" % (t[4], t[5])
    return "race:" + "|".join(sorted([a, b]))


def build_plugin(run):
    """plugin_M_m.so (exports M, used in rules as m) built with the race detector, or None"""
    import subprocess
    d = os.path.join(run.scratch, "plug")
    os.makedirs(d, exist_ok=True)
    open(os.path.join(d, "go.mod"), "w").write("module verifplug\n\ngo 1.16\n")
    open(os.path.join(d, "plugin_m.go"), "w").write(
        "package main\n\ntype Helper struct{}\n\nfunc (h *Helper) Ping() int64 { return 1 }\n\nvar M = Helper{}\n")
    so = os.path.join(d, "plugin_M_m.so")
    env = dict(os.environ, GOFLAGS="-mod=mod", GOPROXY="off", GOSUMDB="off", GOTOOLCHAIN="local", CGO_ENABLED="1")
    try:
        p = subprocess.run(["go", "build", "-buildmode=plugin", "-race", "-o", so, "plugin_m.go"], cwd=d, env=env,
                           capture_output=True, text=True, timeout=600)
    except Exception:
        return None
    if p.returncode != 0 or not os.path.exists(so):
        run.log("plugin build failed (plugin hot-load sessions left out): " + (p.stderr or "")[-200:].replace("\n", " "))
        return None
    return so


def stderr_of(run, label_path):
    txt = ""
    d = os.path.dirname(label_path)
    base = os.path.basename(label_path)
    for f in os.listdir(d):
        if f.startswith(base + ".") and f.endswith(".stderr"):
            txt += open(os.path.join(d, f), errors="replace").read()
    return txt


def check_c19(run):
    import bodyfam as B
    import execfam as X
    import poolfam as P
    import props
    rng = random.Random(run.seed)
    quick = run.tier == "quick"
    # 1. the lock discipline on the model: holds as designed, violated by the as-found programs
    d = run.spec_dir()
    run.model_check("Locks.tla", "Locks.cfg", workers=min(NCPU, 8))
    r = run.model_check("Locks.tla", "Locks_asfound.cfg", workers=2, expect_ok=False)
    if r.ok or r.invariant != "NoConflict":
        raise Infra("vacuity guard: the as-found lock programs should violate NoConflict")
    run.cov["model_distinguishes"] = "Locks.tla: AsFound=TRUE (lengths, cleared flag, model and container read outside their locks) violates NoConflict"
    # 2. collect the concurrent scenarios of C05 C06 C07 C13 C16 C17 C18 (C15's pool requests too)
    saved_tier = run.tier
    run.tier = "quick"
    run.collect = {}
    saved_cov = dict(run.cov)
    P.check_c17(run)
    P.check_c06(run)
    P.check_c07(run)
    P.check_c16(run)
    B.check_c18(run)
    B.check_c15(run)
    pool_sessions = []
    for k in ("capacity", "isolation", "updates", "manage"):
        xs = run.collect[k]
        pool_sessions += rng.sample(xs, min(len(xs), {"capacity": 150, "isolation": 150, "updates": 220, "manage": 60}[k] * (1 if quick else 5)))
    body_sessions = rng.sample(run.collect["conc"], min(len(run.collect["conc"]), 250 if quick else 1500)) + \
        [s for s in run.collect["locals"] if s.get("parallel") or any(c["method"] not in X.SEQ_ONLY for c in s["calls"])][:250 if quick else 1500]
    run.collect = None
    run.tier = saved_tier
    run.cov.clear()
    run.cov.update(saved_cov)
    # exec: parallel models, no concurrent writes to shared injected data by the rule bodies themselves
    recs = X.generate(run, [
        ("g_r1", dict(names="Names3", sal="Sal2", methods=["ExecuteConcurrent", "ExecuteMixModel", "ExecuteInverseMixModel"], beh="Beh3")),
        ("g_r2", dict(names="Names3", sal="Sal1", methods=["ExecuteNSortMConcurrent", "ExecuteNConcurrentMSort", "ExecuteNConcurrentMConcurrent"],
                      nm="NMq", beh="Beh3")),
        ("g_r3", dict(names="Names2", sal="Sal1", methods=["ExecuteDAGModel"], dags="Dags22", beh="Beh3"))])
    exec_sessions = X.to_sessions(rng.sample(recs, min(len(recs), 400 if quick else 3000)), rng, warm=0.0)
    for s in exec_sessions:
        s["hooks"] = True
        s["burst"] = s["gated"] and rng.random() < 0.6
    for s in pool_sessions:
        for st in s["script"]:
            for rq in st.get("reqs") or []:
                if rq.get("fail") == "nilstag":
                    rq["fail"] = ""
    os.environ["GORACE"] = "halt_on_error=0 exitcode=0"
    total = 0
    reports = []
    # exec
    X.run_and_validate(run, exec_sessions, "race-exec", keys=True, race=True)
    reports += parse_races(stderr_of(run, os.path.join(run.scratch, "traces-race-exec.ndjson")))
    total += len(exec_sessions)
    # bodies
    conc = [s for s in body_sessions if s["kind"] == "conc"]
    loc = [s for s in body_sessions if s["kind"] == "locals"]
    if conc:
        B._run(run, conc, "race-conc", "ConcTrace.tla", "ConcTrace.cfg", B.conc_describe, race=True)
        reports += parse_races(stderr_of(run, os.path.join(run.scratch, "traces-race-conc.ndjson")))
    if loc:
        B._run(run, loc, "race-locals", "LocalsTrace.tla", "LocalsTrace.cfg", B.locals_describe, race=True)
        reports += parse_races(stderr_of(run, os.path.join(run.scratch, "traces-race-locals.ndjson")))
    total += len(conc) + len(loc)
    # pool, with the TryLock bits of the hooks required
    P.run_sessions(run, pool_sessions, "race-pool", cfg="PoolTraceLocks.cfg", race=True)
    reports += parse_races(stderr_of(run, os.path.join(run.scratch, "traces-race-pool.ndjson")))
    total += len(pool_sessions)
    # the same scenarios once more without any observer (no events, no gates): the observer's own mutex and the
    # gates order the bodies and would hide unordered accesses from the race detector
    def silent(sessions):
        out = []
        for s in sessions:
            c = json.loads(json.dumps(s))
            c["silent"] = True
            c["gated"] = False
            c["id"] = 5000000 + c["id"]
            if c.get("kind") == "conc" and c.get("target") == "engine" and len(out) % 2 == 0:
                c["twin"] = True      # two rules with conc blocks of their own, run at the same time
            out.append(c)
        return out
    for label, drv, ss in (("exec", "execdrv", exec_sessions), ("body", "bodydrv", conc + loc), ("pool", "pooldrv", pool_sessions)):
        binary = run.go_build(drv, race=True)
        sp = os.path.join(run.scratch, "sessions-silent-%s.ndjson" % label)
        tp = os.path.join(run.scratch, "traces-silent-%s.ndjson" % label)
        write_ndjson(sp, silent(ss))
        run_driver(run, binary, sp, tp)
        reports += parse_races(stderr_of(run, tp))
        total += len(ss)
    # cold syntax trees: fresh pools whose rules (every kind of node) are evaluated for the first time by several
    # requests at once, each with private data - whatever the interpreter stores in the shared tree is a conflict
    cold = []
    # sequential models only: the rules of ONE request share its object, running them in parallel would be the user's race
    meths = ["Execute", "ExecuteSelectedRules", "ExecuteSelectedRulesWithControl", "ExecuteWithStopTagDirect",
             "ExecuteSelectedRulesWithControlAsGivenSortedName", "ExecuteSelectedRulesWithControlAndStopTag", "em", "emSelected"]
    for i in range(60 if quick else 600):
        mn = rng.randint(2, 3)
        mx = mn + rng.randint(1, 2)
        reqs = []
        for qn in range(rng.randint(2, mx)):
            r = P.call_for(rng.choice(meths), ["k1", "k2", "k3", "k4"], 4)
            r.update(q=qn + 1)
            reqs.append(r)
        cold.append({"id": 7000000 + i, "kind": "cold", "min": mn, "max": mx, "silent": True, "rules": [], "script": [{"op": "burst", "reqs": reqs, "flips": 300 if i % 3 == 0 else 0}]})
    # a plugin that is hot-loaded (GenginePool.PluginLoader: a management call that writes every instance's data context)
    # while requests are calling injected functions.  Needs cgo and a race-enabled plugin build; where the sandbox
    # cannot build or open a plugin these sessions are left out and the evidence says so.
    plug = build_plugin(run)
    nplug = 0
    if plug:
        for i in range(20 if quick else 150):
            mn = rng.randint(2, 3)
            reqs = []
            for qn in range(mn):
                r = P.call_for(rng.choice(["Execute", "em"]), ["k1", "k2", "k3", "k4"], 4)
                r.update(q=qn + 1)
                reqs.append(r)
            cold.append({"id": 7500000 + i, "kind": "cold", "min": mn, "max": mn + 1, "silent": True, "rules": [],
                         "script": [{"op": "burst", "reqs": reqs, "plugin": plug}]})
            nplug += 1
    binary = run.go_build("pooldrv", race=True)
    sp = os.path.join(run.scratch, "sessions-cold.ndjson")
    tp = os.path.join(run.scratch, "traces-cold.ndjson")
    write_ndjson(sp, cold)
    run_driver(run, binary, sp, tp)
    cold_evs = read_ndjson(tp)
    bad = [e for e in cold_evs if e.get("ev") == "cold_err"]
    cold_reports = parse_races(stderr_of(run, tp))
    if (bad and not cold_reports) or sum(1 for e in cold_evs if e.get("ev") == "cold_done") != len(cold):
        # rule errors in these sessions are expected only as a consequence of a conflict the detector reports as well
        raise Infra("cold sessions did not run cleanly and no conflict was reported: %s" % json.dumps(bad[:3]))
    reports += cold_reports
    total += len(cold)
    run.cov["cold_tree_sessions"] = len(cold)
    pl = [e for e in cold_evs if e.get("ev") == "cold_plugin"]
    run.cov["plugin_hot_load_sessions"] = ("%d (plugin loaded in %d)" % (nplug, sum(1 for e in pl if not e["err"]))) if plug else \
        "none: a race-enabled plugin could not be built in this sandbox"
    if plug and pl and all(e["err"] for e in pl):
        run.cov["plugin_hot_load_sessions"] = "none: the plugin does not open here (%s)" % pl[0]["err"][:120]
    seen = {}
    for t in reports:
        seen.setdefault(race_key(t), []).append(t)
    for key, ts in sorted(seen.items()):
        t = ts[0]
        run.violation(key, {"race": {"first": t[:3], "second": t[3:], "count": len(ts)}, "how": "Go race detector while the concurrency "
                            "scenarios ran; a Conflict(writer, reader) event has no action in the lock-discipline specification"},
                      "unsynchronised conflicting accesses: %s in %s (%s) and %s in %s (%s), %d report(s)" % (
                          t[0], t[1], t[2], t[3], t[4], t[5], len(ts)))
    run.log("race detector: %d sessions, %d report(s) in gengine's own code, %d distinct pair(s)" % (total, len(reports), len(seen)))
    run.cov["evaluations"] = total
    run.cov["distinct_nontrivial"] = total
    run.cov["race_reports_in_gengine"] = len(reports)
    run.assumptions += ["for accesses without a hook the recorder of conflicts is the Go race detector (a dynamic detector): schedules are the "
                        "steered ones of the C05 C06 C07 C13 C15 C16 C17 C18 scenarios, not all schedules",
                        "a report counts only if the innermost non-runtime frame of both accesses is gengine code (races of injected user data "
                        "or of the harness are not gengine's state)",
                        "TryLock bits at pop / push / result-write hooks must show the guarding mutex held"]
    return run.finish("model_checking",
                      "lock discipline: Locks.tla (two requests, hand-back goroutine, rule goroutine, updater; all interleavings of their critical "
                      "sections) must satisfy NoConflict and its as-found variant must violate it; binding: the concurrency scenarios of the other "
                      "properties (pool bursts, isolation histories, updates racing with requests, management histories, parallel execution models "
                      "with burst exits, conc blocks, concurrent pool requests of the same rules) re-run under the Go race detector with the hooks' "
                      "TryLock bits validated by the trace specifications")
