"""Checks about what happens inside rule bodies: C15 (Locals.tla) and C18 (Conc.tla)."""
import json
import os
import random

from vlib import Infra, NCPU, read_ndjson, run_driver, validate_traces, write_ndjson


def _gen(run, module, cfgname, cfgtext, tag):
    d = run.spec_dir("gen-" + tag)
    open(os.path.join(d, cfgname), "w").write(cfgtext)
    r = run.tlc(module, cfgname, workers=4, cwd=d, timeout=1500)
    p = os.path.join(d, "gen.ndjson")
    if not os.path.exists(p) or (not r.ok):
        raise Infra("generator %s failed:\n%s" % (tag, r.tail(40)))
    out = read_ndjson(p)
    run.log("generated %d scenarios (%s) in %.1fs" % (len(out), tag, r.wall))
    return out, r


def _mc(run, module, cfgname, cfgtext):
    d = run.spec_dir()
    open(os.path.join(d, cfgname), "w").write(cfgtext)
    return run.model_check(module, cfgname, workers=min(NCPU, 12))


def _run(run, sessions, label, module, cfg, describe, race=False):
    if getattr(run, "collect", None) is not None:
        run.collect[label] = sessions
        return 0
    binary = run.go_build("bodydrv", race=race)
    sp = os.path.join(run.scratch, "sessions-%s.ndjson" % label)
    tp = os.path.join(run.scratch, "traces-%s.ndjson" % label)
    write_ndjson(sp, sessions)
    by_id = {s["id"]: s for s in sessions}
    faults = run_driver(run, binary, sp, tp)
    ns, nev, rejected = validate_traces(run, module, cfg, tp)
    run.log("%s: %d sessions, %d events validated, %d rejected, %d driver faults" % (label, ns, nev, len(rejected), len(faults)))
    examined = 0
    confirmed = False
    for sid, evs, idx in rejected:
        sess = by_id.get(sid) or by_id.get(sid // 100)     # a pool session is split into one sub-session per request
        if any(e.get("ev") == "timeout" for e in evs) and (idx is None or evs[idx].get("ev") == "timeout"):
            # a watchdog timeout counts only if the session hangs again, alone, with ten times the budget (twice);
            # otherwise the session is judged by its isolated re-run
            if confirmed or examined >= 3:
                continue
            examined += 1
            n_to, good = 0, []
            for k in range(2):
                rs = os.path.join(run.scratch, "sessions-%s-repro%d.ndjson" % (label, k))
                rt = os.path.join(run.scratch, "traces-%s-repro%d.ndjson" % (label, k))
                for p in (rs, rt):
                    if os.path.exists(p):
                        os.remove(p)
                write_ndjson(rs, [sess])
                run_driver(run, binary, rs, rt, nshards=1, extra=("-calltimeout", "200s"), timeout=3600)
                if any(e.get("ev") == "timeout" for e in read_ndjson(rt)):
                    n_to += 1
                else:
                    good.append(rt)
            if n_to >= 2:
                confirmed = True
                key, what = describe(sess, evs, idx)
                run.violation(key + ":hang", {"session": sess, "trace": evs, "spec": module},
                              what + " (never completes: hung again twice, alone, with ten times the budget)")
                continue
            if not good:
                raise Infra("session %s hit the driver watchdog and no isolated re-run completed (not a verdict)" % sid)
            _, _, rej2 = validate_traces(run, module, cfg, good[0], chunks=1)
            run.log("session %s: watchdog timeout not reproduced; its isolated re-run was %s" % (sid, "rejected" if rej2 else "accepted"))
            for sid2, e2, i2 in rej2:
                key, what = describe(sess, e2, i2)
                run.violation(key, {"session": sess, "trace": e2, "rejected_event_index": i2, "spec": module}, what)
            continue
        key, what = describe(sess, evs, idx)
        run.violation(key, {"session": sess, "trace": evs, "rejected_event_index": idx, "spec": module}, what)
    if not run.samples:
        lines = open(tp).read().split("\n")
        run.samples.append({"session": sessions[0], "trace_head": [json.loads(l) for l in lines[:10] if l]})
    return ns


# ------------------------------------------------------------------ C18
def conc_cfg(kinds, children, blocks, inv=True):
    t = "SPECIFICATION CSpec\nCHECK_DEADLOCK FALSE\nCONSTANTS\n  CKinds <- %s\n  CMaxChildren = %d\n  CMaxBlocks = %d\n" % (kinds, children, blocks)
    if inv:
        t += "INVARIANTS JoinBarrier OnceEach NextBlockAfter FailAfterAll NoAfterOnFailure CanFinish\n"
    return t


def conc_describe(sess, evs, idx):
    ev = evs[idx] if idx is not None else {"ev": "incomplete"}
    kind = ev.get("ev")
    key = "conc:%s:%s" % (sess.get("nest") if sess else "?", kind)
    return key, "conc block (%s): event #%s %s is not a step of Conc (session %s)" % (
        sess.get("nest") if sess else "?", idx, json.dumps(ev)[:160], evs[0].get("id"))


def check_c18(run):
    rng = random.Random(run.seed)
    quick = run.tier == "quick"
    _mc(run, "ConcMC.tla", "mc1.cfg", conc_cfg("Kinds5", 3, 1))
    _mc(run, "ConcMC.tla", "mc2.cfg", conc_cfg("Kinds2", 2, 2))
    if not quick:
        _mc(run, "ConcMC.tla", "mc3.cfg", conc_cfg("Kinds2", 4, 1))
    recs, _ = _gen(run, "ConcGen.tla", "g1.cfg", conc_cfg("Kinds5", 3, 1, inv=False), "c1")
    recs2, _ = _gen(run, "ConcGen.tla", "g2.cfg", conc_cfg("Kinds2", 2, 2, inv=False), "c2")
    recs += recs2
    recs7, _ = _gen(run, "ConcGen.tla", "g7.cfg", conc_cfg("Kinds7", 2, 1, inv=False), "c7")
    recs += recs7
    if not quick:
        r3, _ = _gen(run, "ConcGen.tla", "g3.cfg", conc_cfg("Kinds5", 4, 1, inv=False), "c3")
        recs += r3
    sessions = []
    sid = 0
    for r in recs:
        for nest in (["plain", "if", "for"] if not quick else [rng.choice(["plain", "if", "for"])]):
            sid += 1
            sessions.append({"id": sid, "kind": "conc", "target": "engine", "gated": True,
                             "blocks": r["blocks"], "nest": nest, "pre": sid % 3 == 0})
    # seeded random larger bodies
    nrand = 150 if quick else 3000
    kinds = ["asgL", "asgI", "func", "meth", "three", "methL", "asgML"]
    for i in range(nrand):
        blocks = []
        n = 0
        for b in range(rng.randint(1, 3)):
            bl = []
            for c in range(rng.randint(0, 4 if b else 6)):
                if n >= 8:
                    break
                n += 1
                bl.append({"id": "c%d" % n, "kind": rng.choice(kinds), "fails": rng.random() < 0.15, "val": 100 * (b + 1) + n})
            blocks.append(bl)
        sid += 1
        sessions.append({"id": sid, "kind": "conc", "target": "engine", "gated": rng.random() < 0.9,
                         "blocks": blocks, "nest": rng.choice(["plain", "if", "for"]), "pre": rng.random() < 0.4})
    # wide blocks: many more children than cores / any fixed worker count, from none to all of them failing
    for i in range(40 if quick else 600):
        n = rng.randint(9, 24)
        pf = rng.choice([0.0, 0.2, 0.6, 0.9, 1.0])
        kfirst = rng.choice([0, 0, 8, n // 2])           # the first k children fail whatever pf says
        bl = [{"id": "c%d" % (c + 1), "kind": rng.choice([k for k in kinds if k != "asgI" or c < 8]),
               "fails": c < kfirst or rng.random() < pf, "val": 100 + c + 1} for c in range(n)]
        sid += 1
        sessions.append({"id": sid, "kind": "conc", "target": "engine", "gated": rng.random() < 0.7,
                         "blocks": [bl], "nest": rng.choice(["plain", "if", "for"]), "pre": rng.random() < 0.4})
    # churn: many ungated bodies in which children that look locals up (methods of an object held in a local) run beside
    # children that assign locals, at full speed
    for i in range(300 if quick else 5000):
        blocks = []
        n = 0
        for b in range(3):
            bl = []
            for c in range(8):
                n += 1
                bl.append({"id": "c%d" % n, "kind": rng.choice(["asgL", "asgML", "methL", "methL", "func"]), "fails": False, "val": 100 * (b + 1) + n})
            blocks.append(bl)
        sid += 1
        sessions.append({"id": sid, "kind": "conc", "target": "engine", "gated": False, "blocks": blocks, "nest": rng.choice(["plain", "if", "for"]), "pre": rng.random() < 0.4})
    # the same body evaluated by 2-3 pool requests at the same moment (the instances share the compiled rule); a child
    # may fail in one request only, so that a failure and a success of the same statement overlap
    for i in range(120 if quick else 2500):
        blocks = []
        n = 0
        for b in range(rng.randint(1, 2)):
            bl = []
            for c in range(rng.randint(1, 4)):
                n += 1
                f = rng.random() < 0.35
                bl.append({"id": "c%d" % n, "kind": rng.choice(kinds), "fails": f, "failsq": rng.choice([0, 1, 1, 2]) if f else 0,
                           "val": 100 * (b + 1) + n})
            blocks.append(bl)
        sessions.append({"id": 9000000 + i, "kind": "conc", "target": "pool", "gated": rng.random() < 0.9, "nreq": rng.randint(2, 3),
                         "blocks": blocks, "nest": rng.choice(["plain", "if", "for"]), "pre": rng.random() < 0.4})
    # blocks that follow each other directly (the next block is "the statement after the block") and blocks that hold the
    # same statement several times (each copy is a statement of its own)
    for s in sessions:
        nb = len(s["blocks"])
        x = rng.random()
        if nb >= 2 and x < 0.4:
            s["quiet"] = sorted(b for b in range(1, nb) if rng.random() < 0.7)
        if rng.random() < 0.3:
            s["dups"] = [rng.choice([0, 2, 3]) for _ in range(nb)]
    ns = _run(run, sessions, "conc", "ConcTrace.tla", "ConcTrace.cfg", conc_describe)
    if getattr(run, "collect", None) is not None:
        return 0
    if not run.violations:
        conc_self_test(run)
    run.cov["evaluations"] = ns
    run.cov["distinct_nontrivial"] = len({json.dumps([s["blocks"], s["nest"], s.get("pre", False), s.get("quiet"), s.get("dups")], sort_keys=True) for s in sessions
                                          if any(s["blocks"])})
    run.assumptions += ["children are injected functions / methods that log start, block on a gate and log end",
                        "event order = order of observer calls under one mutex"]
    return run.finish("model_checking",
                      "rule bodies = sequences of conc blocks; every body shape with <=3 (thorough: 4) children over the five child "
                      "kinds (local assignment, injected-field assignment, function, method, three-level call) x failing subsets, "
                      "and two-block bodies (with and without a statement between the blocks), enumerated by TLC; plus seeded random bodies (<=3 blocks, <=8 children; blocks following each other directly; the same statement several times in a block) and wide blocks (9-24 children, "
                      "0-100% failing); children are "
                      "held on gates and released one at a time; distinct = distinct (blocks, nesting)")


def conc_self_test(run):
    binary = run.go_build("bodydrv")
    sess = [{"id": 1, "kind": "conc", "target": "engine", "gated": True, "nest": "plain",
             "blocks": [[{"id": "c1", "kind": "asgL", "fails": False, "val": 7},
                         {"id": "c2", "kind": "func", "fails": False, "val": 8}]]}]
    sp = os.path.join(run.scratch, "cst-s.ndjson")
    tp = os.path.join(run.scratch, "cst-t.ndjson")
    write_ndjson(sp, sess)
    run_driver(run, binary, sp, tp, nshards=1)
    evs = read_ndjson(tp)
    ai = next(i for i, e in enumerate(evs) if e["ev"] == "after")
    last_end = max(i for i, e in enumerate(evs) if e["ev"] == "cend")
    bad = [dict(e) for e in evs]
    bad[ai], bad[last_end] = bad[last_end], bad[ai]      # `after` before the last child ended
    bad2 = [dict(e) for e in evs]
    si = next(i for i, e in enumerate(bad2) if e["ev"] == "see")
    bad2[si] = dict(bad2[si], val=99)                    # the statement after the block saw a stale value
    allp = os.path.join(run.scratch, "cst-all.ndjson")
    with open(allp, "w") as f:
        for n, v in enumerate([evs, bad, bad2]):
            for e in v:
                if e["ev"] == "session":
                    e = dict(e, id=n)
                f.write(json.dumps(e) + "\n")
    saved = dict(run.cov)
    _, _, rejected = validate_traces(run, "ConcTrace.tla", "ConcTrace.cfg", allp, chunks=1)
    run.cov.clear()
    run.cov.update(saved)
    if 0 in [s for s, _, _ in rejected]:
        run.cov["binding_self_test"] = "skipped: the uncorrupted reference trace was rejected"
        return
    if sorted(s for s, _, _ in rejected) != [1, 2]:
        raise Infra("conc binding self-test failed: %s" % [s for s, _, _ in rejected])
    run.cov["binding_self_test"] = "good trace accepted; `after` moved before a child's end and a stale `see` value rejected"


# ------------------------------------------------------------------ C15
SEQ_SAFE = [("Execute", {}), ("ExecuteSelectedRulesWithControlAsGivenSortedName", {"names": ["r2", "r1", "r3"]}),
            ("ExecuteDAGModel", {"dag": [["r1"], ["r2"], ["r1"]]})]
ANY = [("Execute", {}), ("ExecuteConcurrent", {}), ("ExecuteMixModel", {}), ("ExecuteInverseMixModel", {}),
       ("ExecuteNSortMConcurrent", {"n": 1, "m": 2}), ("ExecuteNConcurrentMSort", {"n": 2, "m": 1}),
       ("ExecuteNConcurrentMConcurrent", {"n": 1, "m": 2}),
       ("ExecuteDAGModel", {"dag": [["r1", "r2", "r1"], ["r3", "r1"]]}),
       ("ExecuteDAGModel", {"dag": [["r1", "r1", "r1"]]}),
       # names that are no rules, in front of existing ones
       ("ExecuteDAGModel", {"dag": [["zz", "r1"], ["zz", "r2"], ["r3"]]}),
       ("ExecuteDAGModel", {"dag": [["zz", "yy", "r2", "r1"], ["r3", "zz", "r1"]]}),
       ("ExecuteSelectedRulesConcurrent", {"names": ["r1", "r2", "r3"]}),
       ("ExecuteSelectedRulesMixModel", {"names": ["r3", "r2", "r1"]}),
       ("ExecuteSelectedRules", {"names": ["r2", "r1"]}),
       ("ExecuteSelectedNConcurrentMConcurrent", {"n": 2, "m": 1, "names": ["r1", "r2", "r3"]}),
       ("ExecuteWithStopTagDirect", {})]


SEQT = {"Execute", "ExecuteWithStopTagDirect", "ExecuteSelectedRules", "ExecuteSelectedRulesWithControl",
        "ExecuteSelectedRulesWithControlAndStopTag", "ExecuteSelectedRulesWithControlAsGivenSortedName"}


def mkcall(m, extra, b=True):
    c = {"method": m, "via": "direct", "b": b, "names": [], "n": 0, "m": 0, "dag": [], "beh": {}, "tagset": []}
    c.update(extra)
    return c


def locals_describe(sess, evs, idx):
    ev = evs[idx] if idx is not None else {"ev": "incomplete"}
    meths = ",".join(sorted({c["method"] for c in sess["calls"]})) if sess else "?"
    key = "locals:%s:%s" % (sess["target"] if sess else "?", ev.get("ev"))
    return key, "locals (%s; %s): event #%s %s is not a step of Locals (session %s)" % (
        sess["target"] if sess else "?", meths, idx, json.dumps(ev)[:160], evs[0].get("id"))


def locals_cfg(progs, rules, maxex):
    return ("SPECIFICATION LSpec\nCHECK_DEADLOCK FALSE\nCONSTANTS\n  LProgs <- %s\n  LRules <- %s\n  MaxEx = %d\n"
            "INVARIANTS ReadsOwnWrites StartUndefined SharedInjected PlainNames\n" % (progs, rules, maxex))


def locals_gen_cfg(a, b):
    return ("SPECIFICATION LSpec\nCHECK_DEADLOCK FALSE\nCONSTANTS\n  LProgs = {}\n  LRules = {}\n  MaxEx = 0\n"
            "  GProgsA <- %s\n  GProgsB <- %s\n" % (a, b))


def check_c15(run):
    rng = random.Random(run.seed)
    quick = run.tier == "quick"
    _mc(run, "LocalsMC.tla", "mcl.cfg", locals_cfg("Progs2", "Rules2", 2 if quick else 3))
    recsL, _ = _gen(run, "LocalsGen.tla", "gl.cfg", locals_gen_cfg("Progs3L" if not quick else "Progs2L", "Progs2L"), "locals")
    recsI, _ = _gen(run, "LocalsGen.tla", "gi.cfg", locals_gen_cfg("Progs2", "Progs2"), "inj")
    _mc(run, "LocalsMC.tla", "mcp.cfg", locals_cfg("Progs2P", "Rules2", 2 if quick else 3))
    recsP, _ = _gen(run, "LocalsGen.tla", "gp.cfg", locals_gen_cfg("Progs3P" if not quick else "Progs2P", "Progs2P"), "plain")
    sessions = []
    sid = 0

    def rules_of(rec, third=True):
        rs = [{"name": r["name"], "sal": rng.choice([0, 1, 2, -1]), "ops": r["ops"]} for r in rec["rules"]]
        if third:
            rs.append({"name": "r3", "sal": rng.choice([0, 1, -2]), "ops": rng.choice(rec["rules"])["ops"]})
        for r in rs:
            r["ret"] = rng.random() < 0.35      # the rule ends by returning a value
        return rs
    def with_cf(rules, k="CF"):
        """CF: a conc block with a slow local assignment and a failing branch inside one of the rules; CW: the same with a
        succeeding sibling; T: the rule sets the call's stop tag at that point"""
        rules = json.loads(json.dumps(rules))
        r = rng.choice(rules)
        pos = rng.randint(0, len(r["ops"]))
        r["ops"].insert(pos, {"k": k, "name": rng.choice(["x", "y"]) if k != "T" else ""})
        return rules
    # local-only programs: every model, one or two calls on one engine / pool
    for rec in recsL:
        reps = 1 if quick else 3
        for _ in range(reps):
            m, extra = rng.choice(ANY)
            calls = [mkcall(m, extra, rng.random() < 0.7)]
            while rng.random() < 0.45 and len(calls) < 3:
                # a later call on the same engine / pool instance: half of the time through the same method again
                m2, e2 = (m, extra) if rng.random() < 0.5 else rng.choice(ANY)
                calls.append(mkcall(m2, e2, rng.random() < 0.7))
            sid += 1
            tgt = rng.choice(["engine", "engine", "pool"])
            s = {"id": sid, "kind": "locals", "target": tgt, "gated": True, "parallel": False,
                 "rules": rules_of(rec), "calls": calls}
            if tgt == "pool" and rng.random() < 0.6:
                # the same rules on concurrently served pool requests
                s["parallel"] = True
                s["poolmin"], s["poolmax"] = rng.choice([(1, 2), (2, 3), (1, 3)])
                s["calls"] = [mkcall(*rng.choice(ANY)) for _ in range(rng.randint(2, 3))]
            x = rng.random()
            if x < 0.2:
                s["rules"] = with_cf(s["rules"])
            elif x < 0.4:
                s["rules"] = with_cf(s["rules"], "CW")
            elif x < 0.55 and all(c["method"] in SEQT for c in s["calls"]):
                # only where rules run one at a time: two executions writing the caller's stop tag at once would be the
                # caller's own data race, not gengine's
                s["rules"] = with_cf(s["rules"], "T")
            elif x < 0.63:
                # a rule dies of a fault that only the rule-level recover catches; a later call runs its rules at once
                s["rules"] = with_cf(s["rules"], "P")
                s["calls"][0]["b"] = True
                s["calls"] = s["calls"][:1] + [mkcall(*rng.choice([a for a in ANY if a[0] not in SEQT])) for _ in range(rng.randint(1, 2))]
            elif x < 0.75:
                # locals holding objects: the value of a read is told by a METHOD of the object in the local
                for r in s["rules"]:
                    names = {o["name"] for o in r["ops"] if o["k"] in ("W", "R")}
                    for nm in names:
                        if rng.random() < 0.6:
                            # ... or function values (closures): the rule calls the function held in the local
                            conv = rng.choice([{"W": "WM", "R": "RM"}, {"W": "WN", "R": "RN"}])
                            r["ops"] = [dict(o, k=conv[o["k"]]) if o["k"] in ("W", "R") and o["name"] == nm else o
                                        for o in r["ops"]]
            elif rng.random() < 0.3 and not any(c["method"] == "ExecuteDAGModel" for c in s["calls"]):
                # rules without any assignment statement: their locals are bound by forRange only
                for r in s["rules"]:
                    if all(o["k"] in ("W", "R", "H") for o in r["ops"]) and rng.random() < 0.8:
                        r["noasg"] = True
                        r["ops"] = [dict(o, k="FR") if o["k"] == "W" else o for o in r["ops"]]
            sessions.append(s)
    # histories through ONE method on one engine / pool instance (what an execution leaves behind meets the next call of
    # the same kind): 2-3 calls, with stop tags and stop-on-error so that calls also end early
    for i in range(400 if quick else 6000):
        rec = rng.choice(recsL)
        sid += 1
        m, extra = rng.choice([("ExecuteWithStopTagDirect", {}), ("ExecuteWithStopTagDirect", {}), ("Execute", {}),
                               ("ExecuteSelectedRulesWithControl", {"names": ["r1", "r2", "r3"]}),
                               ("ExecuteSelectedRulesWithControlAndStopTag", {"names": ["r3", "r2", "r1"]}),
                               ("ExecuteMixModelWithStopTagDirect", {}), ("ExecuteNSortMConcurrent", {"n": 2, "m": 1})])
        rules = rules_of(rec)
        if rng.random() < 0.6 and m in SEQT:
            rules = with_cf(rules, "T")
        sessions.append({"id": sid, "kind": "locals", "target": rng.choice(["engine", "pool"]), "gated": rng.random() < 0.5, "parallel": False,
                         "rules": rules, "calls": [mkcall(m, extra, rng.random() < 0.5) for _ in range(rng.randint(2, 3))]})
    # locals bound from an addressable injected scalar (every rule from a field of its own) while the rules of the call
    # run at the same time on one data context
    for i in range(120 if quick else 2000):
        sid += 1
        rules = []
        for k, n in enumerate(["r1", "r2", "r3"]):
            ops = [{"k": "WF", "name": "x"}]
            for _ in range(rng.randint(1, 3)):
                ops.append(rng.choice([{"k": "H", "name": ""}, {"k": "R", "name": "x"}, {"k": "WF", "name": rng.choice(["x", "y"])},
                                       {"k": "R", "name": "x"}]))
            ops.append({"k": "R", "name": "x"})
            rules.append({"name": n, "sal": rng.choice([0, 1, 2]), "ops": ops})
        m, extra = rng.choice([("ExecuteConcurrent", {}), ("ExecuteMixModel", {}), ("ExecuteInverseMixModel", {}),
                               ("ExecuteNConcurrentMConcurrent", {"n": 1, "m": 2}), ("ExecuteNConcurrentMSort", {"n": 2, "m": 1}),
                               ("ExecuteSelectedRulesConcurrent", {"names": ["r1", "r2", "r3"]}), ("ExecuteDAGModel", {"dag": [["r1", "r2", "r3"]]})])
        sessions.append({"id": sid, "kind": "locals", "target": "engine", "gated": rng.random() < 0.8, "parallel": False,
                         "rules": rules, "calls": [mkcall(m, extra)] * rng.randint(1, 2)})
    # many simultaneous pool requests through the same rules, without gates (real parallelism)
    for i in range(60 if quick else 1200):
        rec = rng.choice(recsL)
        sid += 1
        rules = with_cf(rules_of(rec), "CW")
        if rng.random() < 0.5:
            rules = with_cf(rules, "CW")
        mn = rng.randint(2, 4)
        sessions.append({"id": sid, "kind": "locals", "target": "pool", "gated": False, "parallel": True, "poolmin": mn, "poolmax": mn + 2,
                         "rules": rules, "calls": [mkcall(*rng.choice(ANY)) for _ in range(rng.randint(4, 8))]})
    # programs with injected fields: sequential models only (log order = real order)
    for rec in (recsI if not quick else rng.sample(recsI, min(len(recsI), 1200))):
        if not any(o["k"] in ("WI", "RI") for r in rec["rules"] for o in r["ops"]):
            continue
        m, extra = rng.choice(SEQ_SAFE)
        sid += 1
        sessions.append({"id": sid, "kind": "locals", "target": rng.choice(["engine", "pool"]), "gated": rng.random() < 0.5,
                         "parallel": False, "rules": rules_of(rec), "calls": [mkcall(m, extra), mkcall("Execute", {})]})
    if quick and len(sessions) > 3200:
        sessions = rng.sample(sessions, 3200)
    # objects and function values in locals of the SAME name in every rule, read several times (by method, through a dotted
    # field name, by calling the function): what one execution resolved must not answer for another
    for i in range(150 if quick else 2000):
        sid += 1
        rules = []
        for n in ["r1", "r2", "r3"]:
            w, r_ = rng.choice([("WM", "RM"), ("WM", "RM"), ("WN", "RN")])
            ops = [{"k": w, "name": "x"}] + [{"k": r_, "name": "x"} for _ in range(rng.randint(1, 3))]
            if rng.random() < 0.3:
                ops.insert(rng.randint(1, len(ops)), {"k": "H", "name": ""})
            rules.append({"name": n, "sal": rng.choice([0, 1, 2]), "ops": ops, "ret": rng.random() < 0.35})
        calls = [mkcall(*rng.choice(ANY)) for _ in range(rng.randint(1, 3))]
        sessions.append({"id": sid, "kind": "locals", "target": rng.choice(["engine", "engine", "pool"]), "gated": rng.random() < 0.7,
                         "parallel": False, "rules": rules, "calls": calls})
    # plain names that are injected by some calls on a rule set and not by others: the same assignment statement binds
    # a local in one call and writes the caller's cell in the next (sequential models: log order = real order)
    plain = []
    for rec in recsP:
        if not any(o["k"] in ("WP", "RP") for r in rec["rules"] for o in r["ops"]):
            continue
        sid += 1
        calls = []
        for _ in range(rng.randint(2, 4)):
            m, extra = rng.choice(SEQ_SAFE)
            calls.append(dict(mkcall(m, extra), pin=rng.random() < 0.5))
        plain.append({"id": sid, "kind": "locals", "target": rng.choice(["engine", "pool"]), "gated": rng.random() < 0.3,
                      "parallel": False, "rules": rules_of(rec), "calls": calls})
    if quick and len(plain) > 500:
        plain = rng.sample(plain, 500)
    sessions += plain
    ns = _run(run, sessions, "locals", "LocalsTrace.tla", "LocalsTrace.cfg", locals_describe)
    if getattr(run, "collect", None) is not None:
        return 0
    if not run.violations:
        locals_self_test(run)
    run.cov["evaluations"] = ns
    run.cov["distinct_nontrivial"] = len({json.dumps([s["rules"], s["calls"], s["target"], s["parallel"]], sort_keys=True)
                                          for s in sessions if any(o["k"] == "R" for r in s["rules"] for o in r["ops"])})
    run.assumptions += ["the execution id is held in a rule local (`e = enter(..)`): a leak of locals also corrupts the id, "
                        "which the trace specification rejects as well",
                        "injected-field programs run only under sequential models so that log order equals real order"]
    return run.finish("model_checking",
                      "sessions = three rules whose bodies are straight-line programs over {write local, read local, hold on gate, "
                      "write/read injected field} (pairs of programs enumerated by TLC, <=3 ops), run under every execution model "
                      "incl. the same rule twice in one DAG layer, second calls on the same engine, and 2-3 concurrent pool requests "
                      "on pools (1,2)-(2,3); non-trivial = at least one read of a local")


def locals_self_test(run):
    binary = run.go_build("bodydrv")
    sess = [{"id": 1, "kind": "locals", "target": "engine", "gated": True, "parallel": False,
             "rules": [{"name": "r1", "sal": 2, "ops": [{"k": "W", "name": "x"}, {"k": "H", "name": ""}, {"k": "R", "name": "x"}]},
                       {"name": "r2", "sal": 1, "ops": [{"k": "W", "name": "x"}, {"k": "R", "name": "x"}]}],
             "calls": [mkcall("ExecuteConcurrent", {})]}]
    sp = os.path.join(run.scratch, "lst-s.ndjson")
    tp = os.path.join(run.scratch, "lst-t.ndjson")
    write_ndjson(sp, sess)
    run_driver(run, binary, sp, tp, nshards=1)
    evs = read_ndjson(tp)
    bad = [dict(e) for e in evs]
    # r1's read observes r2's value
    w = {e["e"]: e["val"] for e in evs if e["ev"] == "eop" and e["i"] == 1}
    e1 = next(e["e"] for e in evs if e["ev"] == "estart" and e["r"] == "r1")
    e2 = next(e["e"] for e in evs if e["ev"] == "estart" and e["r"] == "r2")
    for i, e in enumerate(bad):
        if e["ev"] == "eop" and e["e"] == e1 and e["i"] == 3:
            bad[i] = dict(e, val=w[e2])
    allp = os.path.join(run.scratch, "lst-all.ndjson")
    with open(allp, "w") as f:
        for n, v in enumerate([evs, bad]):
            for e in v:
                if e["ev"] == "session":
                    e = dict(e, id=n)
                f.write(json.dumps(e) + "\n")
    saved = dict(run.cov)
    _, _, rejected = validate_traces(run, "LocalsTrace.tla", "LocalsTrace.cfg", allp, chunks=1)
    run.cov.clear()
    run.cov.update(saved)
    if 0 in [s for s, _, _ in rejected]:
        run.cov["binding_self_test"] = "skipped: the uncorrupted reference trace was rejected"
        return
    if sorted(s for s, _, _ in rejected) != [1]:
        raise Infra("locals binding self-test failed: %s" % [s for s, _, _ in rejected])
    run.cov["binding_self_test"] = "good trace accepted; a read that observes another execution's value rejected"
