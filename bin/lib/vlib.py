"""Common machinery of the gengine verification runner.

scratch directories, Go builds from /repo's working tree (build tag verif),
TLC runs (model checking, generation, trace validation), driver execution with
crash attribution, known findings, evidence files, verdict protocol.
"""
import json
import os
import re
import shutil
import subprocess
import sys
import tempfile
import time

VERIF = os.path.dirname(os.path.dirname(os.path.dirname(os.path.abspath(__file__))))
REPO = os.environ.get("VERIF_REPO", "/repo")
SPEC = os.path.join(VERIF, "spec")
HARNESS = os.path.join(VERIF, "harness")
NCPU = os.cpu_count() or 4

GOENV = dict(os.environ, GOFLAGS="-mod=mod", GOPROXY="off", GOSUMDB="off",
             GOTOOLCHAIN="local", CGO_ENABLED=os.environ.get("CGO_ENABLED", "1"))


class Infra(Exception):
    """An infrastructure problem: exit 2, never a violation."""


class Run:
    """One check run: scratch dir, timing, verdict bookkeeping."""

    def __init__(self, prop, tier):
        self.prop = prop
        self.tier = tier
        self.seed = int(os.environ.get("VERIF_SEED", "1"))
        self.t0 = time.time()
        self.scratch = tempfile.mkdtemp(prefix="gverif-%s-" % prop)
        self.violations = []      # (key, replay_path, what)
        self.known = []           # (key, what)
        self.cov = {}
        self.samples = []
        self.assumptions = []
        self.bins = {}
        os.makedirs(os.path.join(self.scratch, "tmp"), exist_ok=True)

    def cleanup(self):
        shutil.rmtree(self.scratch, ignore_errors=True)

    def log(self, *a):
        print("[%s %s %6.1fs]" % (self.prop, self.tier, time.time() - self.t0), *a, flush=True)

    # ---------------------------------------------------------------- Go
    def harness_dir(self):
        d = os.path.join(self.scratch, "harness")
        if not os.path.isdir(d):
            shutil.copytree(HARNESS, d)
            mod = open(os.path.join(d, "go.mod")).read()
            mod = re.sub(r"=> /repo\b", "=> " + REPO, mod)
            open(os.path.join(d, "go.mod"), "w").write(mod)
            for cand in (os.path.join(REPO, "go.sum"), "/repo/go.sum", os.path.join(HARNESS, "go.sum")):
                if os.path.exists(cand):
                    shutil.copy(cand, os.path.join(d, "go.sum"))
                    break
        return d

    def go_build(self, pkg, race=False, tags="verif"):
        key = (pkg, race)
        if key in self.bins:
            return self.bins[key]
        out = os.path.join(self.scratch, "bin-" + pkg.replace("/", "_") + ("-race" if race else ""))
        cmd = ["go", "build", "-tags", tags, "-o", out]
        if race:
            cmd.append("-race")
        cmd.append("./cmd/" + pkg)
        t = time.time()
        p = subprocess.run(cmd, cwd=self.harness_dir(), env=GOENV, capture_output=True, text=True)
        if p.returncode != 0:
            raise Infra("go build %s failed:\n%s" % (pkg, p.stderr[-4000:]))
        self.log("built %s%s in %.1fs" % (pkg, " (race)" if race else "", time.time() - t))
        self.bins[key] = out
        return out

    # ---------------------------------------------------------------- TLC
    def spec_dir(self, name="spec"):
        d = os.path.join(self.scratch, name)
        if not os.path.isdir(d):
            os.makedirs(d)
            for f in os.listdir(SPEC):
                if f.endswith(".tla") or f.endswith(".cfg"):
                    shutil.copy(os.path.join(SPEC, f), d)
        return d

    def tlc(self, module, cfg, workers=None, cwd=None, timeout=3600, extra=(), heap=None):
        cwd = cwd or self.spec_dir()
        md = tempfile.mkdtemp(prefix="md-", dir=self.scratch)
        env = dict(os.environ)
        jto = "-Djava.io.tmpdir=%s -Xss256m" % os.path.join(self.scratch, "tmp")
        if heap:
            jto += " -Xmx%s" % heap
        env["JAVA_TOOL_OPTIONS"] = jto
        cmd = ["tlc", "-workers", str(workers or 1), "-metadir", md, "-config", cfg] + list(extra) + [module]
        t = time.time()
        # own process group: on a timeout the JVM behind the `tlc` wrapper is killed too (a runaway model fills the disk)
        proc = subprocess.Popen(cmd, cwd=cwd, env=env, stdout=subprocess.PIPE, stderr=subprocess.PIPE, text=True, start_new_session=True)
        try:
            so, se = proc.communicate(timeout=timeout)
        except subprocess.TimeoutExpired:
            try:
                os.killpg(proc.pid, 9)
            except OSError:
                pass
            proc.communicate()
            raise Infra("TLC timeout on %s/%s after %ds" % (module, cfg, timeout))
        finally:
            shutil.rmtree(md, ignore_errors=True)
        out = so + se
        res = TLCResult(out, proc.returncode, time.time() - t)
        res.load_result(cwd)
        return res

    def model_check(self, module, cfg, workers=None, timeout=1800, expect_ok=True):
        """Exhaustive TLC run; returns the result and accumulates state counts."""
        r = self.tlc(module, cfg, workers=workers or min(NCPU, 16), timeout=timeout)
        if r.generated is None:
            raise Infra("TLC produced no state count on %s/%s:\n%s" % (module, cfg, r.tail()))
        if expect_ok and not r.ok:
            raise Infra("TLC reports an error on the model %s/%s (a design counterexample or a "
                        "specification error, not a verdict on the code):\n%s" % (module, cfg, r.tail(60)))
        self.cov["states"] = self.cov.get("states", 0) + (r.distinct or 0)
        self.cov["transitions"] = self.cov.get("transitions", 0) + (r.generated or 0)
        self.cov.setdefault("model_runs", []).append(
            {"module": module, "cfg": cfg, "distinct_states": r.distinct, "states_generated": r.generated,
             "depth": r.depth, "wall_s": round(r.wall, 1), "ok": r.ok})
        self.log("TLC %s/%s: %s distinct states, %s generated, depth %s, %.1fs, ok=%s" % (
            module, cfg, r.distinct, r.generated, r.depth, r.wall, r.ok))
        return r

    def apalache(self, module, init, inv, length, timeout=600):
        """One Apalache query (bounded symbolic check); returns True iff `NoError`."""
        d = self.spec_dir("apalache")
        out_dir = os.path.join(self.scratch, "apalache-out")
        cmd = ["apalache-mc", "check", "--out-dir=" + out_dir, "--init=" + init, "--inv=" + inv, "--length=%d" % length, module]
        try:
            p = subprocess.run(cmd, cwd=d, capture_output=True, text=True, timeout=timeout,
                               env=dict(os.environ, JVM_ARGS="-Djava.io.tmpdir=%s" % os.path.join(self.scratch, "tmp")))
        except (subprocess.TimeoutExpired, FileNotFoundError) as e:
            raise Infra("apalache: %s" % e)
        return "The outcome is: NoError" in (p.stdout + p.stderr)

    # ------------------------------------------------------------ verdicts
    def violation(self, key, replay, what):
        kf = match_known(self.prop, key)
        if kf is not None:
            self.known.append((kf["key"], kf["what"]))
            return False
        os.makedirs(os.path.join(VERIF, "replays", self.prop), exist_ok=True)
        path = os.path.join(VERIF, "replays", self.prop, re.sub(r"[^A-Za-z0-9_.-]", "_", key)[:80] + ".json")
        with open(path, "w") as f:
            json.dump(replay, f, indent=1, sort_keys=True)
        self.violations.append((key, path, what))
        return True

    def finish(self, level, rule, explanation=None, exhaustive=False):
        wall = time.time() - self.t0
        cov = dict(self.cov)
        cov.setdefault("evaluations", cov.get("traces_validated_against_impl", 0))
        cov["rule"] = rule
        cov["samples"] = self.samples[:6] if self.samples else ["(no sample recorded)"]
        cov["exhaustive"] = exhaustive
        if explanation:
            cov["explanation"] = explanation
        if level == "model_checking":
            cov.setdefault("states", 0)
            cov.setdefault("transitions", 0)
            cov.setdefault("traces_validated_against_impl", 0)
        cov["known_findings_seen"] = sorted(set(k for k, _ in self.known))
        ev = {"property_id": self.prop, "tier": self.tier, "seed": self.seed, "level": level,
              "coverage": cov, "assumptions": self.assumptions, "wall_s": round(wall, 1),
              "violations": len(self.violations)}
        if not os.environ.get("VERIF_NOEVIDENCE"):
            os.makedirs(os.path.join(VERIF, "evidence"), exist_ok=True)
            with open(os.path.join(VERIF, "evidence", self.prop + ".json"), "w") as f:
                json.dump(ev, f, indent=1, sort_keys=True)
        seen = set()
        for k, what in self.known:
            if k not in seen:
                seen.add(k)
                print("KNOWN-FINDING: property=%s %s" % (self.prop, what), flush=True)
        seenv = set()
        for key, path, what in self.violations:
            if key in seenv:
                continue
            seenv.add(key)
            if len(seenv) <= 25:
                print("VIOLATION property=%s replay=%s" % (self.prop, path), flush=True)
                print("  what: %s" % what, flush=True)
        self.log("done: %d violation(s), %d known finding(s), %.1fs" % (len(seenv), len(seen), wall))
        return 1 if self.violations else 0


class TLCResult:
    def __init__(self, out, rc, wall):
        self.out = out
        self.rc = rc
        self.wall = wall
        m = re.search(r"(\d[\d,]*) states generated, (\d[\d,]*) distinct states found", out)
        self.generated = int(m.group(1).replace(",", "")) if m else None
        self.distinct = int(m.group(2).replace(",", "")) if m else None
        m = re.search(r"depth of the complete state graph search is (\d+)", out)
        self.depth = int(m.group(1)) if m else None
        self.ok = ("Model checking completed. No error has been found." in out) and rc == 0
        self.invariant = None
        m = re.search(r"Invariant (\S+) is violated", out)
        if m:
            self.invariant = m.group(1)
        self.hwm = None
        self.rej = None

    def load_result(self, d):
        """Reads result.json written by a trace specification's postcondition."""
        p = os.path.join(d, "result.json")
        if not os.path.exists(p):
            return
        r = json.load(open(p))
        self.hwm = (int(r["hwm"]), int(r["len"]))
        self.rej = [int(x) for x in r["rej"]]

    def tail(self, n=40):
        lines = [l for l in self.out.splitlines()
                 if not re.match(r"^(Semantic processing|Parsing file|Linting of)", l)]
        return "\n".join(lines[-n:])

    def prints(self, tag):
        """All PrintT(<<tag, ...>>) lines."""
        return re.findall(r'<<"%s", (.*?)>>\n' % re.escape(tag), self.out)


# -------------------------------------------------------------- known findings
_known = None


def load_known():
    global _known
    if _known is None:
        p = os.path.join(VERIF, "known_findings.json")
        _known = json.load(open(p)) if os.path.exists(p) else {"findings": []}
    return _known


def match_known(prop, key):
    """A violation key matches a known finding iff the finding is listed for this
    property with status "known" and its signature (a regular expression over the
    structural key, never a line number) matches the whole key."""
    for f in load_known().get("findings", []):
        if f.get("status") != "known" or f.get("property") != prop:
            continue
        if re.fullmatch(f["signature"], key):
            return f
    return None


# ------------------------------------------------------------------ drivers
def run_driver(run, binary, sessions_path, traces_path, nshards=None, quiet="2ms", extra=(), timeout=1800):
    """Runs the sessions through the driver in nshards parallel processes.  A shard
    that dies is restarted after the journalled session, which is recorded as a
    crash (or timeout) trace.  Returns {session index: "crash"|"timeout"} ."""
    nshards = nshards or min(NCPU, 12)
    procs = []
    for i in range(nshards):
        procs.append(_Shard(run, binary, sessions_path, traces_path + ".%d" % i, i, nshards, quiet, extra))
    deadline = time.time() + timeout
    faults = {}
    pending = list(procs)
    for s in pending:
        s.start(0)
    while pending:
        for s in list(pending):
            rc = s.poll()
            if rc is None:
                continue
            if rc == 0:
                pending.remove(s)
                continue
            last = s.last_started()
            if last is None:
                raise Infra("driver shard %d exited with %d before journalling a session:\n%s" % (s.i, rc, s.stderr()[-3000:]))
            idx, sid = last
            if s.was_done(idx):
                if rc == 3:   # watchdog: session recorded with a timeout event
                    faults[sid] = "timeout"
                    s.start(idx + 1)
                    continue
                raise Infra("driver shard %d exited with %d after finishing session %d:\n%s" % (s.i, rc, idx, s.stderr()[-3000:]))
            if rc == 2 and "driver:" in s.stderr():
                msg = [l for l in s.stderr().split("\n") if l.startswith("driver:")]
                raise Infra("driver shard %d: %s" % (s.i, "\n".join(msg)[-2000:]))
            faults[sid] = "crash"
            with open(s.traces, "a") as f:
                f.write(json.dumps({"ev": "session", "id": sid}) + "\n")
                f.write(json.dumps({"ev": "crash", "stderr": _crash_head(s.stderr())}) + "\n")
            s.start(idx + 1)
        if time.time() > deadline:
            for s in pending:
                s.kill()
            raise Infra("driver timeout after %ds" % timeout)
        time.sleep(0.05)
    with open(traces_path, "w") as out:
        for s in procs:
            if os.path.exists(s.traces):
                out.write(open(s.traces).read())
    return faults


def _crash_head(stderr):
    lines = [l for l in stderr.splitlines() if l.startswith(("panic:", "fatal error:", "goroutine ", "\t/repo", "github.com/bilibili"))]
    return "\n".join(lines[:12])[:1500]


class _Shard:
    def __init__(self, run, binary, sessions, traces, i, n, quiet, extra):
        self.run, self.binary, self.sessions, self.traces = run, binary, sessions, traces
        self.i, self.n, self.quiet, self.extra = i, n, quiet, list(extra)
        self.journal = traces + ".journal"
        self.errpath = traces + ".stderr"
        self.p = None

    def start(self, frm):
        self.errf = open(self.errpath, "w")
        self.p = subprocess.Popen(
            [self.binary, "-in", self.sessions, "-out", self.traces, "-journal", self.journal,
             "-shard", "%d/%d" % (self.i, self.n), "-from", str(frm), "-quiet", self.quiet,
             "-seed", str(self.run.seed)] + self.extra,
            stdout=subprocess.DEVNULL, stderr=self.errf, env=dict(os.environ, GOTRACEBACK="single"))

    def poll(self):
        rc = self.p.poll()
        if rc is not None:
            self.errf.close()
        return rc

    def kill(self):
        try:
            self.p.kill()
        except Exception:
            pass

    def stderr(self):
        try:
            return open(self.errpath).read()
        except Exception:
            return ""

    def _journal(self):
        try:
            return open(self.journal).read().split("\n")
        except Exception:
            return []

    def last_started(self):
        last = None
        for l in self._journal():
            if l and not l.startswith("done"):
                a = l.split()
                last = (int(a[0]), int(a[1]))
        return last

    def was_done(self, idx):
        return ("done %d" % idx) in self._journal()


# ------------------------------------------------------------ trace validation
def split_sessions(lines):
    """[(id, [event dict, ...])] from trace lines (each session starts with a session event)."""
    out = []
    for ln in lines:
        ln = ln.strip()
        if not ln:
            continue
        e = json.loads(ln)
        if e.get("ev") == "session":
            out.append((e["id"], [e]))
        else:
            if not out:
                raise Infra("trace does not start with a session line")
            out[-1][1].append(e)
    return out


def _sal_collect(x, acc):
    if isinstance(x, dict):
        for k, v in x.items():
            if k == "sal" and isinstance(v, int) and not isinstance(v, bool):
                acc.add(v)
            else:
                _sal_collect(v, acc)
    elif isinstance(x, list):
        for v in x:
            _sal_collect(v, acc)


def _sal_map(x, m):
    if isinstance(x, dict):
        return {k: (m[v] if k == "sal" and isinstance(v, int) and not isinstance(v, bool) else _sal_map(v, m)) for k, v in x.items()}
    if isinstance(x, list):
        return [_sal_map(v, m) for v in x]
    return x


def tlc_view(evs):
    """TLC's integers are 32-bit.  The specifications only compare saliences with each other, so a session that uses
    saliences beyond that range is shown to TLC with every salience replaced by its rank among the session's saliences
    (order and equality preserved); reports keep the recorded values."""
    acc = set()
    _sal_collect(evs, acc)
    if all(abs(v) < 2 ** 30 for v in acc):
        return evs
    m = {v: i for i, v in enumerate(sorted(acc))}
    return _sal_map(evs, m)


def validate_traces(run, module, cfg, traces_path, chunks=None, timeout=1800):
    """Validates all sessions of traces_path with the deterministic trace spec
    (TraceSkip resumes after a rejected session).  Returns (n_sessions, n_events,
    [(session id, events, index of the unexplained event | None)])."""
    # the events are parsed one session at a time (a thorough run records millions of them): what is kept is the raw
    # lines and, per session, its id and line range; only rejected sessions are handed back as parsed events
    lines = [l for l in open(traces_path).read().split("\n") if l.strip()]
    sessions = []          # (id, first line, one past the last line)
    for i, ln in enumerate(lines):
        if '"session"' in ln:
            e = json.loads(ln)
            if e.get("ev") == "session":
                if sessions:
                    sessions[-1] = (sessions[-1][0], sessions[-1][1], i)
                sessions.append((e["id"], i, len(lines)))
                continue
        if not sessions:
            raise Infra("trace does not start with a session line")
    if not sessions:
        raise Infra("no traces recorded")

    def parsed(k):
        sid, a, b = sessions[k]
        return [json.loads(l) for l in lines[a:b]]
    chunks = chunks or max(1, min(NCPU // 2, len(lines) // 4000 + 1))
    per = (len(sessions) + chunks - 1) // chunks
    jobs = []
    for c in range(chunks):
        part = list(range(c * per, min((c + 1) * per, len(sessions))))
        if not part:
            continue
        d = run.spec_dir("val-%s-%d" % (module, c))
        n = 0
        with open(os.path.join(d, "trace.ndjson"), "w") as f:
            for k in part:
                for e in tlc_view(parsed(k)):
                    f.write(json.dumps(e, sort_keys=True) + "\n")
                    n += 1
            # a closing sentinel session line: rejected iff the last session never returned
            f.write(json.dumps({"ev": "session", "id": -1}, sort_keys=True) + "\n")
            n += 1
        jobs.append((part, d, n))
    import concurrent.futures as cf
    rejected = []
    with cf.ThreadPoolExecutor(max_workers=len(jobs)) as ex:
        futs = [ex.submit(run.tlc, module, cfg, 1, d, timeout) for part, d, n in jobs]
        for (part, d, n), fu in zip(jobs, futs):
            r = fu.result()
            if r.hwm is None or r.rej is None or not r.ok:
                raise Infra("trace validation did not complete (%s):\n%s" % (module, r.tail(50)))
            if r.hwm[1] != n:
                raise Infra("trace length mismatch: TLC read %d lines, wrote %d" % (r.hwm[1], n))
            if r.hwm[0] != n + 1:
                raise Infra("trace validation stopped at line %d of %d without a rejection record:\n%s" % (r.hwm[0], n, r.tail(50)))
            # map rejected line numbers to sessions (the sentinel is the last "session" of the chunk)
            starts = []
            pos = 1
            for k in part:
                starts.append(pos)
                pos += sessions[k][2] - sessions[k][1]
            starts.append(pos)
            for ln in r.rej:
                si = max(i for i, st in enumerate(starts) if st <= ln)
                if ln == starts[si]:           # a session line: the previous session never returned
                    if si == 0:
                        raise Infra("first session line rejected")
                    k = part[si - 1]
                    rejected.append((sessions[k][0], parsed(k), None))
                else:
                    k = part[si]
                    rejected.append((sessions[k][0], parsed(k), ln - starts[si]))
    nev = len(lines)
    run.cov["traces_validated_against_impl"] = run.cov.get("traces_validated_against_impl", 0) + len(sessions)
    run.cov["trace_events_validated"] = run.cov.get("trace_events_validated", 0) + nev
    return len(sessions), nev, rejected


def write_ndjson(path, recs):
    with open(path, "w") as f:
        for r in recs:
            f.write(json.dumps(r, sort_keys=True) + "\n")


def read_ndjson(path):
    return [json.loads(l) for l in open(path).read().split("\n") if l.strip()]


def main_wrapper(fn, prop, tier):
    run = Run(prop, tier)
    try:
        rc = fn(run)
    except Infra as e:
        print("INFRA property=%s: %s" % (prop, e), flush=True)
        rc = 2
    except Exception:
        import traceback
        traceback.print_exc()
        print("INFRA property=%s: runner exception" % prop, flush=True)
        rc = 2
    finally:
        if os.environ.get("VERIF_KEEP"):
            print("scratch kept:", run.scratch)
        else:
            run.cleanup()
    sys.exit(rc)
