"""Pool family: C17 (capacity), C06 (isolation), C16 (management), C07 (hot updates);
spec/Pool.tla, PoolMC.tla, PoolTrace.tla, PoolGen.tla; driver harness/cmd/pooldrv."""
import json
import os
import random

from vlib import Infra, NCPU, read_ndjson, run_driver, validate_traces, write_ndjson

ALLM = ["Execute", "ExecuteConcurrent", "ExecuteMixModel", "ExecuteInverseMixModel", "ExecuteDAGModel",
        "ExecuteSelectedRules", "ExecuteSelectedRulesConcurrent", "ExecuteSelectedRulesMixModel",
        "ExecuteSelectedRulesInverseMixModel", "ExecuteSelectedRulesWithControl",
        "ExecuteSelectedRulesWithControlAsGivenSortedName", "ExecuteWithStopTagDirect",
        "ExecuteMixModelWithStopTagDirect", "ExecuteSelectedRulesWithControlAndStopTag",
        "ExecuteSelectedRulesWithControlAndStopTagAsGivenSortedName", "emMulti", "emSelected", "em",
        "ExecuteNSortMConcurrent", "ExecuteNConcurrentMSort", "ExecuteNConcurrentMConcurrent",
        "ExecuteSelectedNSortMConcurrent", "ExecuteSelectedNConcurrentMSort", "ExecuteSelectedNConcurrentMConcurrent"]


def mc(run, cfgname, text, expect_ok=True, module="PoolMC.tla"):
    d = run.spec_dir()
    open(os.path.join(d, cfgname), "w").write(text)
    return run.model_check(module, cfgname, workers=min(NCPU, 12), expect_ok=expect_ok)


def pool_cfg(reqs, mn, mx, pinned, updates, stages, invs=None, prop=None, spec="MCSpec"):
    t = ("SPECIFICATION %s\nCHECK_DEADLOCK FALSE\nCONSTANTS\n  None = 0\n  Reqs = {%s}\n  MCMin = %d\n  MCMax = %d\n"
         "  Pinned = %s\n  MCUpdates = %d\n  MCStages = %d\n" % (spec, ", ".join(str(i + 1) for i in range(reqs)), mn, mx,
                                                                  "TRUE" if pinned else "FALSE", updates, stages))
    if invs:
        t += "INVARIANTS " + " ".join(invs) + "\n"
    if prop:
        t += "PROPERTY " + prop + "\n"
    return t


def gen(run, cfg):
    d = run.spec_dir("gen-pool")
    open(os.path.join(d, "g.cfg"), "w").write(cfg)
    r = run.tlc("PoolGen.tla", "g.cfg", workers=2, cwd=d, timeout=900)
    if not r.ok:
        raise Infra("PoolGen failed:\n" + r.tail(30))
    return {k: read_ndjson(os.path.join(d, "gen-%s.ndjson" % k)) for k in ("capacity", "manage", "updates", "isolation")}


def call_for(method, names_all, nrules):
    """request fields for a method so that it runs every rule in names_all (no windows that skip rules)"""
    r = {"method": method, "via": "direct", "b": True, "n": 0, "m": 0, "names": None, "dag": []}
    if method in ("em", "emMulti"):
        r.update(method="Execute", via=method)
    elif method == "emSelected":
        r.update(method="ExecuteSelectedRules", via="emSelected", names=list(names_all))
    elif method.startswith("ExecuteSelectedN"):
        r.update(names=list(names_all), n=1, m=max(1, len(names_all) - 1))
    elif method.startswith("ExecuteSelected"):
        r.update(names=list(names_all))
    elif method.startswith("ExecuteN"):
        r.update(n=1, m=max(1, nrules - 1))
    elif method == "ExecuteDAGModel":
        half = max(1, len(names_all) // 2)
        r.update(dag=[list(names_all[:half]), list(names_all[half:])], names=list(names_all))
    return r


def describe(sess, evs, idx):
    ev = evs[idx] if idx is not None else {"ev": "incomplete"}
    kind = (sess or {}).get("kind", "?")
    e = ev.get("ev")
    det = ""
    if e == "req_end":
        # which call
        q = ev.get("q")
        meth = "?"
        for st in (sess or {}).get("script", []):
            for r in st.get("reqs") or []:
                if r["q"] == q:
                    meth = r.get("via") if r.get("via") not in (None, "", "direct") else r["method"]
        det = ":%s:%s" % (meth, "panic" if ev.get("panic") else "err=%s" % ev.get("err"))
    elif e == "upd_end":
        det = ":%s:%s" % (ev.get("kind"), "panic" if ev.get("panic") else "ok=%s" % ev.get("ok"))
    elif e == "query":
        det = ":" + str(ev.get("kind"))
    elif e in ("pop", "push"):
        det = ""
    key = "pool:%s:%s%s" % (kind, e, det)
    if e in ("clear", "put"):
        return key, ("pool session (%s): event #%s %s: the request touches instance %s although it does not hold it (any more) - "
                     "an instance is handed back only after the request has dropped its data from it (session %s)" % (
                         kind, idx, json.dumps(ev)[:120], ev.get("i"), evs[0].get("id")))
    return key, "pool session (%s): event #%s %s is not a step of Pool (session %s)" % (kind, idx, json.dumps(ev)[:240], evs[0].get("id"))


def run_sessions(run, sessions, label, quiet="2ms", cfg="PoolTrace.cfg", race=False):
    binary = run.go_build("pooldrv", race=race)
    sp = os.path.join(run.scratch, "sessions-%s.ndjson" % label)
    tp = os.path.join(run.scratch, "traces-%s.ndjson" % label)
    write_ndjson(sp, sessions)
    by_id = {s["id"]: s for s in sessions}
    faults = run_driver(run, binary, sp, tp, quiet=quiet)
    ns, nev, rejected = validate_traces(run, "PoolTrace.tla", cfg, tp)
    run.log("%s: %d sessions, %d events validated, %d rejected, %d driver faults" % (label, ns, nev, len(rejected), len(faults)))
    # a session that hit its watchdog and whose recording is a behaviour of the specification up to that point; a
    # rejection of an EARLIER event stands on its own (the recording up to it is what really happened)
    def is_hang(evs, idx):
        return any(e.get("ev") == "timeout" for e in evs) and (idx is None or evs[idx].get("ev") == "timeout")
    hung = [(sid, evs) for sid, evs, idx in rejected if is_hang(evs, idx)]
    confirmed = set()
    # A watchdog timeout is a verdict only if the same session hangs again, alone, with ten times the budget
    # (up to three timed-out sessions are examined; under load several may time out without being stuck).
    for sid, evs in (hung[:3] if label != "repro" else []):
        if confirmed:
            break
        sess = json.loads(json.dumps(by_id[sid]))
        sess["timeout"] = 10 * (sess.get("timeout") or 30)
        # same session id, hence the same seeded release schedule; four attempts, at least two must hang again
        import concurrent.futures as cf

        def attempt(k):
            rp_s = os.path.join(run.scratch, "sessions-repro%d.ndjson" % k)
            rp_t = os.path.join(run.scratch, "traces-repro%d.ndjson" % k)
            for p in (rp_s, rp_t):
                if os.path.exists(p):
                    os.remove(p)
            write_ndjson(rp_s, [sess])
            run_driver(run, binary, rp_s, rp_t, nshards=1, quiet=quiet, timeout=3600)
            return sum(1 for e in read_ndjson(rp_t) if e.get("ev") == "timeout")
        with cf.ThreadPoolExecutor(max_workers=4) as ex:
            n_to = sum(1 for x in ex.map(attempt, range(4)) if x > 0)
        run.log("watchdog timeout of session %s: re-run 4 times alone with 10x budget: %d hung again" % (sid, n_to))
        if n_to >= 2:
            confirmed.add(sid)
        else:
            # not reproduced: the verdict on this session is the one of its re-runs (the same session, executed alone)
            ok_runs = 0
            for k in range(4):
                rp_t = os.path.join(run.scratch, "traces-repro%d.ndjson" % k)
                evs2 = read_ndjson(rp_t)
                if any(e.get("ev") == "timeout" for e in evs2):
                    continue
                vp = os.path.join(run.scratch, "traces-reprov%d.ndjson" % k)
                write_ndjson(vp, evs2)
                _, _, rej2 = validate_traces(run, "PoolTrace.tla", cfg, vp, chunks=1)
                if rej2:
                    sid2, e2, i2 = rej2[0]
                    key, what = describe(sess, e2, i2)
                    run.violation(key, {"session": sess, "trace": e2, "rejected_event_index": i2, "spec": "PoolTrace.tla"}, what)
                    break
                ok_runs += 1
            run.log("session %s: watchdog timeout under load not reproduced; %d re-run(s) alone completed and were accepted" % (sid, ok_runs))
            if ok_runs == 0 and not run.violations:
                raise Infra("session %s hit the driver watchdog and no isolated re-run completed (not a verdict)" % sid)
    for sid, evs, idx in rejected:
        sess = by_id.get(sid)
        if is_hang(evs, idx):
            if sid in confirmed:
                last = [e for e in evs if e.get("ev") != "timeout"][-6:]
                run.violation("pool:%s:hang" % sess.get("kind"),
                              {"session": sess, "trace": evs, "spec": "PoolTrace.tla (liveness: every arrived request returns)"},
                              "pool session (%s) never completes: requests are stuck although the trace shows what they wait for "
                              "(reproduced 3 times; last events %s; session %s)" % (sess.get("kind"), json.dumps(last)[:300], sid))
            continue
        key, what = describe(sess, evs, idx)
        run.violation(key, {"session": sess, "trace": evs, "rejected_event_index": idx, "spec": "PoolTrace.tla"}, what)
    if not run.samples:
        lines = open(tp).read().split("\n")
        run.samples.append({"session": sessions[0], "trace_head": [json.loads(l) for l in lines[:12] if l]})
    return ns


def self_test(run, sess, corrupt, label):
    """the binding is live: a corrupted copy of a good trace must be rejected.  sess: a session, or a list of candidates of
    which the first whose recording contains the event to corrupt is used (a recording may lack it, e.g. when every
    request of a small session is of a kind the pool refuses)"""
    if run.violations:
        return
    binary = run.go_build("pooldrv")
    sp = os.path.join(run.scratch, "pst-s.ndjson")
    tp = os.path.join(run.scratch, "pst-t.ndjson")
    evs = bad = None
    for cand in (sess if isinstance(sess, list) else [sess]):
        for p in (sp, tp):
            if os.path.exists(p):
                os.remove(p)
        write_ndjson(sp, [cand])
        run_driver(run, binary, sp, tp, nshards=1)
        evs = read_ndjson(tp)
        try:
            bad = corrupt(json.loads(json.dumps(evs)))
            break
        except (StopIteration, IndexError, ValueError):
            bad = None
    if bad is None:
        raise Infra("self-test: none of the candidate sessions recorded the event to corrupt")
    allp = os.path.join(run.scratch, "pst-all.ndjson")
    with open(allp, "w") as f:
        for n, v in enumerate([evs, bad]):
            for e in v:
                if e["ev"] == "session":
                    e = dict(e, id=n)
                f.write(json.dumps(e) + "\n")
    saved = dict(run.cov)
    _, _, rejected = validate_traces(run, "PoolTrace.tla", "PoolTrace.cfg", allp, chunks=1)
    run.cov.clear()
    run.cov.update(saved)
    rej = sorted(s for s, _, _ in rejected)
    if 0 in rej:
        # the uncorrupted recording is itself not a behaviour of the specification: that is a finding of the
        # main validation (reported there), not a defect of the binding
        run.cov["binding_self_test"] = "skipped: the uncorrupted reference trace was rejected"
        return
    if rej != [1]:
        raise Infra("pool binding self-test (%s) failed: rejected %s" % (label, rej))
    run.cov["binding_self_test"] = label


ISO_KEYS = ["ka", "kb", "kc"]
ISO_RULES = [{"name": n, "tag": i + 1} for i, n in enumerate(["own", "pa", "pb", "pc", "pd", "pe"])]


def iso_prefix(rng):
    """management calls before the requests of an isolation / capacity session: the pool is emptied and refilled, or its
    (one) rule text is installed once more, fully or incrementally"""
    k = rng.choice(["clearfull", "clearincr", "full", "incr"])
    steps = []
    if k.startswith("clear"):
        steps.append({"op": "update", "update": {"kind": "clear", "rules": [], "names": []}})
    steps.append({"op": "update", "update": {"kind": "full" if k.endswith("full") else "incr", "rules": ISO_RULES, "names": []}})
    return steps


def iso_req(q, rng, keys, fail="", plain=False):
    m = rng.choice(["Execute", "ExecuteConcurrent", "ExecuteMixModel", "ExecuteInverseMixModel", "emMulti", "em",
                    "ExecuteSelectedRules", "ExecuteSelectedRulesConcurrent", "ExecuteDAGModel", "ExecuteWithStopTagDirect",
                    "ExecuteSelectedRulesMixModel", "emSelected"])
    r = call_for(m, ["own", "pa", "pb", "pc", "pd", "pe"], 6)
    if m == "em" and not keys:
        r.update(via="emMulti")
    r.update(q=q, keys=keys, fail=fail, noret=rng.random() < 0.2)
    x = rng.random()
    if plain:
        # holders of starve / fill steps must get into their rule: none of the requests the pool refuses
        return r
    if x < 0.05:
        # a selection that names no installed rule: refused, and the instance handed back exactly once
        r.update(method=rng.choice(["ExecuteSelectedRules", "ExecuteSelectedRulesWithControl", "ExecuteSelectedRulesConcurrent",
                                    "ExecuteSelectedRulesMixModel", "ExecuteSelectedRulesInverseMixModel"]), via="direct",
                 names=["nosuch1", "nosuch2"], fail="", odd=True)
    elif x < 0.10 and keys:
        # the two-object entry point with only its second object: nothing called `req` is injected
        r.update(method="Execute", via="emresp", names=None, fail="")
    elif x < 0.16:
        # a request the pool must refuse (window larger than the rule set / non-positive sizes): it runs nothing and
        # hands back nothing of anybody else
        r.update(method=rng.choice(["ExecuteNSortMConcurrent", "ExecuteNConcurrentMSort", "ExecuteNConcurrentMConcurrent",
                                    "ExecuteSelectedNSortMConcurrent"]), via="direct", names=["own", "pa"],
                 n=rng.choice([5, 0, -1, 9]), m=rng.choice([5, 1, 0]), fail="", odd=True)
    elif x < 0.22:
        # a stop-tag request that stops on its first error: its first rule sets the tag and then fails.  Nothing of that
        # (neither the tag nor the early exit) may reach the request that uses the instance next
        m = rng.choice(["ExecuteWithStopTagDirect", "ExecuteSelectedRulesWithControlAndStopTag",
                        "ExecuteSelectedRulesWithControlAndStopTagAsGivenSortedName", "ExecuteWithStopTagDirect"])
        r.update(call_for(m, ["own", "pa", "pb", "pc", "pd", "pe"], 6))
        r.update(b=False, fail=rng.choice(["boom", "boom", ""]), tag=True)
    elif x < 0.28:
        # stop on the first error in a concurrent first stage: `pa` fails at once (its key is not injected) while `own` of
        # the same stage is still inside its body; the call returns - and gives its instance up - only when `own` is over
        m = rng.choice(["ExecuteNConcurrentMSort", "ExecuteNConcurrentMConcurrent", "ExecuteSelectedNConcurrentMSort",
                        "ExecuteSelectedNConcurrentMConcurrent"])
        r.update(call_for(m, ["own", "pa", "pb", "pc", "pd", "pe"], 6))
        r.update(n=3, m=3, b=False, fail="", keys=[k for k in keys if k != "ka"])
    return r


# ------------------------------------------------------------------ C17
def check_c17(run):
    rng = random.Random(run.seed)
    quick = run.tier == "quick"
    invs = ["Conservation", "OneHolder", "AtMostMax", "OwnKeysOnly"]
    mc(run, "cap1.cfg", pool_cfg(3, 1, 2, True, 0, 1, invs))
    mc(run, "cap2.cfg", pool_cfg(4 if not quick else 3, 2, 3, True, 0, 1, invs))
    mc(run, "live.cfg", pool_cfg(3, 1, 2, True, 0, 1, prop="AllReturn", spec="MCFair"))
    # the bookkeeping invariant for an UNBOUNDED number of requests: inductive invariant discharged by Apalache
    if getattr(run, "collect", None) is None:
        ok = (run.apalache("PoolInd.tla", "Init", "IndInv", 0) and run.apalache("PoolInd.tla", "IndInit", "IndInv", 1)
              and run.apalache("PoolInd.tla", "IndInit", "AtMostMax", 0))
        if not ok:
            raise Infra("Apalache did not discharge the inductive invariant of PoolInd.tla")
        run.cov["inductive_invariant"] = ("PoolInd.tla: Init => IndInv, IndInv /\\ Next => IndInv', IndInv => AtMostMax discharged by Apalache "
                                          "(4 instances, unboundedly many requests)")
        run.log("Apalache: inductive invariant of the instance bookkeeping discharged (unbounded requests)")
    g = gen(run, "SPECIFICATION GSpec\nCONSTANTS\n  GOps = 1\n  GBurst = %d\n  GIso = 2\n" % (4 if quick else 5))
    sessions = []
    recs = g["capacity"]
    for i, rec in enumerate(recs):
        q = 0
        reqs = []
        for f in rec["fails"]:
            q += 1
            reqs.append(iso_req(q, rng, ISO_KEYS, f))
        # more requests than instances: the rest must wait
        while len(reqs) <= rec["max"] + rng.randint(0, 2):
            q += 1
            reqs.append(iso_req(q, rng, ISO_KEYS, ""))
        final = []
        for k in range(rec["max"]):
            q += 1
            final.append(iso_req(q, rng, ISO_KEYS, ""))
        sessions.append({"id": i + 1, "kind": "capacity", "min": rec["min"], "max": rec["max"], "model": rng.randint(1, 4),
                         "rules": [], "gated": True, "checkv": False, "gatehooks": rng.random() < 0.5, "timeout": 4,
                         "script": [{"op": "burst", "reqs": reqs}, {"op": "quiesce"},
                                    {"op": "burst", "reqs": final}, {"op": "quiesce"}]})
    nrand = 60 if quick else 1500
    for i in range(nrand):
        mn = rng.randint(1, 4)
        mx = mn + rng.randint(1, 4)
        script = []
        q = 0
        for b in range(rng.randint(1, 3)):
            reqs = []
            for k in range(rng.randint(1, min(40 if not quick else 12, mx * 3))):
                q += 1
                reqs.append(iso_req(q, rng, ISO_KEYS, rng.choice(["", "", "", "boom", "cond", "nilstag", "concboom"])))
            script.append({"op": "burst", "reqs": reqs})
            script.append({"op": "quiesce"})
        final = []
        for k in range(mx):
            q += 1
            final.append(iso_req(q, rng, ISO_KEYS, ""))
        script += [{"op": "burst", "reqs": final}, {"op": "quiesce"}]
        sessions.append({"id": 100000 + i, "kind": "capacity", "min": mn, "max": mx, "model": rng.randint(1, 4), "rules": [],
                         "gated": rng.random() < 0.85, "checkv": False, "gatehooks": rng.random() < 0.5, "timeout": 6,
                         "script": script})
    # waiters proceed: every instance is held inside a rule, more requests arrive and wait, ONE holder (of the resident or
    # of the additional list; ending normally, with a rule error or with a panic) is let go and nothing else happens
    # until a waiter has completed
    nst = 0
    for (mn, mx) in [(1, 2), (1, 3), (2, 3), (2, 4), (3, 5)]:
        for which in ("resident", "addition", "any"):
            for fail in ("", "boom", "cond", "nilstag", "concboom"):
                for nw in ((1, 2) if not quick else (rng.choice([1, 2]),)):
                    reqs = [iso_req(k + 1, rng, ISO_KEYS, fail, plain=True) for k in range(mx)] + \
                           [iso_req(mx + k + 1, rng, ISO_KEYS, "", plain=True) for k in range(nw)]
                    final = [iso_req(mx + nw + k + 1, rng, ISO_KEYS, "", plain=True) for k in range(mx)]
                    nst += 1
                    starve = {"op": "starve", "reqs": reqs, "which": which, "waiters": nw, "delayms": rng.choice([0, 0, 50, 800])}
                    script = [starve, {"op": "quiesce"}]
                    if rng.random() < 0.35:
                        # the pool is emptied (or its text re-installed) while the waiters wait, and refilled afterwards
                        k = rng.choice(["clear", "clear", "full", "incr"])
                        starve["midupdate"] = {"kind": k, "rules": ISO_RULES if k != "clear" else [], "names": []}
                        if k == "clear":
                            script.append({"op": "update", "update": {"kind": "full", "rules": ISO_RULES, "names": []}})
                    script += [{"op": "burst", "reqs": final}, {"op": "quiesce"}]
                    sessions.append({"id": 200000 + nst, "kind": "capacity", "min": mn, "max": mx, "model": rng.randint(1, 4), "rules": [],
                                     "gated": False, "checkv": False, "gatehooks": False, "timeout": 5, "script": script})
    # storms: many requests at full speed (no gates) on small pools, pops of one list overlapping hand-backs to the other;
    # afterwards exactly max requests must be able to sit inside a rule at the same time (`fill`)
    for i in range(6 if quick else 120):
        mn = rng.randint(1, 2)
        mx = mn + rng.randint(1, 2)
        q = 0
        script = []
        for b in range(2):
            reqs = []
            for k in range(600 if quick else 1500):
                q += 1
                r = call_for("ExecuteSelectedRules", ["own"], 1)
                r.update(q=q, keys=ISO_KEYS + ["kd"], fail="", noret=False, nodata=False)
                reqs.append(r)
            script.append({"op": "burst", "reqs": reqs})
            fill = []
            for k in range(mx):
                q += 1
                r = call_for("ExecuteSelectedRules", ["own"], 1)
                r.update(q=q, keys=ISO_KEYS + ["kd"], fail="", noret=False)
                fill.append(r)
            script += [{"op": "quiesce"}, {"op": "fill", "reqs": fill}, {"op": "quiesce"}]
        sessions.append({"id": 300000 + i, "kind": "capacity", "min": mn, "max": mx, "model": 1, "rules": [], "gated": False,
                         "checkv": False, "gatehooks": False, "timeout": 20, "script": script})
    # requests that pass an empty data map (their rules fail: nothing is injected) must hand their instance back too
    for i in range(20 if quick else 400):
        mn = rng.randint(1, 2)
        mx = mn + rng.randint(1, 2)
        q = 0
        reqs = []
        for k in range(rng.randint(mx, 3 * mx)):
            q += 1
            r = iso_req(q, rng, ISO_KEYS, "")
            if rng.random() < 0.6:
                r.update(nodata=True, keys=[], via="direct" if r["via"] == "em" else r["via"])
            reqs.append(r)
        fill = []
        for k in range(mx):
            q += 1
            fill.append(iso_req(q, rng, ISO_KEYS, "", plain=True))
        for r in fill:
            if r.get("n", 0) > 4 or r["method"].startswith("ExecuteN") or r["method"].startswith("ExecuteSelectedN"):
                r.update(call_for("Execute", [], 0))
        sessions.append({"id": 400000 + i, "kind": "capacity", "min": mn, "max": mx, "model": rng.randint(1, 4), "rules": [],
                         "gated": rng.random() < 0.5, "checkv": False, "gatehooks": False, "timeout": 6,
                         "script": [{"op": "burst", "reqs": reqs}, {"op": "quiesce"}, {"op": "fill", "reqs": fill}, {"op": "quiesce"}]})
    # big pools: "pool sizes from 1/2 upwards" - more instances than any machine word has bits; exactly max requests sit
    # inside a rule at the same moment (`fill`), twice, so that every instance is taken, handed back and taken again
    for i, (mn, mx) in enumerate([(2, 66), (65, 70)] if quick else [(2, 66), (65, 70), (1, 130), (64, 65), (33, 129), (3, 257)]):
        q = 0
        script = []
        for b in range(2):
            fill = []
            for k in range(mx):
                q += 1
                r = call_for("ExecuteSelectedRules", ["own"], 1)
                r.update(q=q, keys=ISO_KEYS + ["kd"], fail="", noret=False)
                fill.append(r)
            script += [{"op": "fill", "reqs": fill}, {"op": "quiesce"}]
        sessions.append({"id": 500000 + i, "kind": "capacity", "min": mn, "max": mx, "model": 1, "rules": [], "gated": False,
                         "checkv": False, "gatehooks": False, "timeout": 20, "script": script})
    if getattr(run, "collect", None) is not None:
        run.collect["capacity"] = sessions
        return 0
    ns = run_sessions(run, sessions, "capacity")

    def corrupt(evs):     # the same instance handed to a second request while still held
        pops = [i for i, e in enumerate(evs) if e["ev"] == "pop"]
        for a in pops:
            for b in pops:
                # a later pop of ANOTHER instance with nothing given back in between: the first instance is still held
                if b > a and evs[b]["i"] != evs[a]["i"] and not any(e["ev"] in ("put", "push", "req_end") for e in evs[a:b]):
                    evs[b] = dict(evs[b], i=evs[a]["i"])
                    return evs
        raise IndexError("no two overlapping pops in this recording")
    self_test(run, sessions[:25], corrupt, "good trace accepted; a second pop of an instance that is still held rejected")
    run.cov["evaluations"] = ns
    run.cov["distinct_nontrivial"] = len({json.dumps([s["min"], s["max"], s["script"]], sort_keys=True) for s in sessions})
    run.assumptions += ["pop/push/spin are logged by build-tag hooks inside the critical sections; the request of a pop is "
                        "identified by the goroutine id of the caller", "liveness is decided on the model (weak fairness of the push "
                        "goroutines and of request progress); on the code finite bursts must complete"]
    return run.finish("model_checking",
                      "sessions = pool (min,max) x burst of more requests than instances, every vector of outcomes (ok / failing rule / "
                      "panicking condition) up to burst size 4 (thorough 5) enumerated by TLC for pools (1,2) (2,3) (1,3) (2,4), followed by a "
                      "quiescence point (every instance pushed back) and a final burst of exactly max simultaneously held requests; plus seeded "
                      "random sessions (pools up to (4,8), up to 40 requests per burst); all rule bodies held on gates")


# ------------------------------------------------------------------ C06
def check_c06(run):
    rng = random.Random(run.seed)
    quick = run.tier == "quick"
    invs = ["Conservation", "OneHolder", "OwnKeysOnly"]
    mc(run, "iso1.cfg", pool_cfg(3, 1, 2, True, 0, 1, invs))
    mc(run, "iso2.cfg", pool_cfg(4, 2, 3, True, 1, 1, invs))
    # the release in the implementation's own steps: data dropped (clear), instance handed back (put), call returned
    mc(run, "iso3.cfg", pool_cfg(3, 1, 2, True, 0, 1, invs, spec="MCSpecR"))
    g = gen(run, "SPECIFICATION GSpec\nCONSTANTS\n  GOps = 1\n  GBurst = 1\n  GIso = %d\n" % (4 if quick else 5))
    sessions = []
    for i, rec in enumerate(g["isolation"]):
        # requests in groups of `par` concurrent ones; each injects "req" and one more key
        q = 0
        script = []
        ks = rec["keys"]
        for j in range(0, len(ks), rec["par"]):
            reqs = []
            for k in ks[j:j + rec["par"]]:
                q += 1
                reqs.append(iso_req(q, rng, ([k] if rng.random() < 0.8 else [k, rng.choice(ISO_KEYS)]) + (["kd"] if rng.random() < 0.3 else []),
                                    rng.choice(["", "", "concboom"])))
            for r in reqs:
                r["keys"] = sorted(set(r["keys"]))
            script.append({"op": "burst", "reqs": reqs})
        script.append({"op": "quiesce"})
        if rng.random() < 0.3:
            script = iso_prefix(rng) + script
        sessions.append({"id": i + 1, "kind": "isolation", "min": rec["min"], "max": rec["max"], "model": rng.randint(1, 4),
                         "rules": [], "gated": True, "checkv": False, "script": script})
    for i in range(80 if quick else 2500):
        mn = rng.randint(1, 3)
        mx = mn + rng.randint(1, 4)
        q = 0
        script = []
        for b in range(rng.randint(1, 4)):
            reqs = []
            for k in range(rng.randint(1, 8 if quick else 14)):
                q += 1
                reqs.append(iso_req(q, rng, sorted(set(rng.sample(ISO_KEYS + ["kd"], rng.randint(0, 3)))), rng.choice(["", "", "", "boom", "concboom", "leak", "see", "see"])))
                if rng.random() < 0.12:
                    # a big request: thousands of further entries that no rule looks at (handing its instance back takes long)
                    reqs[-1]["bulk"] = rng.choice([500, 3000, 8000])
            script.append({"op": "burst", "reqs": reqs})
        script.append({"op": "quiesce"})
        if rng.random() < 0.3:
            script = iso_prefix(rng) + script
        sessions.append({"id": 100000 + i, "kind": "isolation", "min": mn, "max": mx, "model": rng.randint(1, 4), "rules": [],
                         "gated": rng.random() < 0.8, "checkv": False, "script": script})
    if getattr(run, "collect", None) is not None:
        run.collect["isolation"] = sessions
        return 0
    ns = run_sessions(run, sessions, "isolation")

    def corrupt(evs):     # a rule observed the object of another request under one of the keys
        i = next(i for i, e in enumerate(evs) if e["ev"] == "peek")
        evs[i] = dict(evs[i], val=evs[i]["val"] + 1)
        return evs
    self_test(run, sessions[:25], corrupt, "good trace accepted; a peek that observes another request's object rejected")
    run.cov["evaluations"] = ns
    run.cov["distinct_nontrivial"] = len({json.dumps(s["script"], sort_keys=True) for s in sessions})
    run.assumptions += ["every request injects `req` plus a subset of {ka,kb,kc}; one rule per key reads it and logs (own id, key, id found)",
                        "result maps are compared value by value with the request id at return"]
    return run.finish("model_checking",
                      "histories = sequences of up to 4 (thorough 5) requests, each injecting `req` and one or two of three keys, issued in groups of "
                      "1-3 concurrent requests on pools (1,2) and (2,3) (enumerated by TLC), rotating over the pool's execute methods incl. "
                      "...WithSpecifiedEM and DAG, rule bodies held on gates; plus seeded random histories (pools up to (3,7), bursts up to 14); "
                      "every peek of a key must find the request's own object, every result value must be the request's id")


# ------------------------------------------------------------------ C16 / C07
def V(ver, names=("r1", "r2"), sal=None):
    """rules of version ver: tag = ver*100 + salience code*10 + rule index; the salience code (0..9) of a
    rule is ver+index mod 10 unless given (sal = {name: code}), so that a replacement can keep or change it"""
    out = []
    for n in names:
        i = int(n[1:])
        code = (sal or {}).get(n, (ver + i) % 10)
        out.append({"name": n, "tag": 100 * ver + 10 * code + i})
    return out


def code_of(tag):
    return (tag // 10) % 10


def probe(qbase, mx, names, nrules, rng, methods=None):
    """a burst of exactly max requests held on gates: every instance serves one"""
    reqs = []
    for k in range(mx):
        m = rng.choice(methods or ["Execute", "ExecuteConcurrent", "ExecuteMixModel", "ExecuteInverseMixModel", "emMulti",
                                   "ExecuteSelectedRules", "ExecuteDAGModel", "emSelected", "ExecuteSelectedRulesConcurrent"])
        r = call_for(m, names, nrules)
        r.update(q=qbase + k + 1, keys=[], fail="")
        reqs.append(r)
    return {"op": "burst", "reqs": reqs}


UNIVERSE = ["r1", "r2", "r3", "r4", "zz"]


def manage_session(sid, rec, rng):
    ver = 2
    cur = {r["name"]: r["tag"] for r in V(1)}
    script = [{"op": "query", "args": UNIVERSE}]
    q = 0
    for op in rec["ops"]:
        ver += 1
        if op == "fullA":
            # the byte-identical text of the constructor (a re-pushed configuration)
            u = {"kind": "full", "rules": V(1, ("r1", "r2")), "names": []}
        elif op == "fullB":
            u = {"kind": "full", "rules": V(2, ("r2", "r3", "r4")), "names": []}
        elif op == "incrNew":
            # the added rule runs first, in the middle or last
            u = {"kind": "incr", "rules": V(ver, ("r3",), {"r3": rng.choice([0, 1, (ver + 3) % 10])}), "names": []}
        elif op == "incrRepl":
            # replacement that keeps the salience of the installed rule (new body and description only)
            keep = {n: code_of(cur[n]) for n in ("r1", "r2") if n in cur}
            u = {"kind": "incr", "rules": V(ver, ("r1", "r2"), keep), "names": []}
        elif op == "incrReplNew":
            # the rule that an earlier incremental text ADDED is re-defined (same or changed salience)
            if "r3" in cur:
                keep = {"r3": rng.choice([code_of(cur["r3"]), (code_of(cur["r3"]) + 4) % 10])}
                u = {"kind": "incr", "rules": V(ver, ("r3",), keep), "names": []}
            else:
                u = {"kind": "incr", "rules": V(ver, ("r3",)), "names": []}
        elif op == "incrSal":
            chg = {n: (code_of(cur[n]) + 3) % 10 for n in ("r2", "r4") if n in cur}
            u = {"kind": "incr", "rules": V(ver, ("r2", "r4"), chg), "names": []}
        elif op == "removeHas":
            u = {"kind": "remove", "rules": [], "names": ["r1"]}
        elif op == "removeAbsent":
            u = {"kind": "remove", "rules": [], "names": ["zz", "r2"]}
        elif op == "removeNone":
            u = {"kind": "remove", "rules": [], "names": []}
        elif op == "removeTwo":
            # two installed rules in one call, the one that runs first named first (a rule may stand behind them)
            order = sorted(cur, key=lambda n: (-code_of(cur[n]), n))
            u = {"kind": "remove", "rules": [], "names": order[:2]}
        elif op == "clear":
            u = {"kind": "clear", "rules": [], "names": []}
        elif op in ("badfull", "badincr"):
            u = {"kind": op, "rules": [], "names": []}
        else:
            script.append({"op": "setmodel", "m": int(op[5:])})
            u = None
        if u:
            script.append({"op": "update", "update": u})
            if u["kind"] == "full":
                cur = {r["name"]: r["tag"] for r in u["rules"]}
            elif u["kind"] == "incr":
                cur.update({r["name"]: r["tag"] for r in u["rules"]})
            elif u["kind"] == "remove" and u["names"]:
                for n in u["names"]:
                    cur.pop(n, None)
            elif u["kind"] == "clear":
                cur = {}
        script.append({"op": "query", "args": UNIVERSE})
        script.append(probe(q, rec["max"], UNIVERSE[:4], 0, rng,
                            methods=["Execute", "ExecuteConcurrent", "emMulti", "em", "emSelected", "ExecuteSelectedRules",
                                     "ExecuteSelectedRulesConcurrent", "ExecuteDAGModel", "ExecuteMixModel", "ExecuteInverseMixModel"]))
        q += rec["max"]
        script.append({"op": "quiesce"})
    # the constructor's model varies: a model set later must replace it on every instance and entry point
    return {"id": sid, "kind": "manage", "min": rec["min"], "max": rec["max"], "model": rng.choice([1, 2, 2, 3, 4]), "rules": V(1), "gated": True,
            "checkv": True, "script": script}


def check_c16(run):
    rng = random.Random(run.seed)
    quick = run.tier == "quick"
    mc(run, "man1.cfg", pool_cfg(2, 1, 2, True, 2, 1, ["Conservation", "AgreeWhenIdle", "OneVersion"]))
    g = gen(run, "SPECIFICATION GSpec\nCONSTANTS\n  GOps = %d\n  GBurst = 1\n  GIso = 2\n" % (2 if quick else 3))
    recs = g["manage"]
    if not quick and len(recs) > 3615:
        recs = rng.sample(recs, 3615)
    sessions = [manage_session(i + 1, r, rng) for i, r in enumerate(recs)]
    # longer random sequences on bigger pools
    ops = ["fullA", "fullB", "incrNew", "incrRepl", "incrSal", "incrReplNew", "incrReplNew", "removeHas", "removeAbsent", "removeNone", "removeTwo", "clear",
           "model1", "model1", "model2", "model3", "model4", "model9", "badfull", "badincr"]
    for i in range(60 if quick else 1200):
        mn = rng.randint(1, 3)
        rec = {"min": mn, "max": mn + rng.randint(1, 3), "ops": [rng.choice(ops) for _ in range(rng.randint(3, 7))]}
        sessions.append(manage_session(100000 + i, rec, rng))
    # the execution model is changed back and forth (mix <-> sort) while two clients issue requests through the
    # ...WithSpecifiedEM entry points: whatever model a request meets, it runs exactly the installed / named rules
    for i in range(25 if quick else 600):
        mn = rng.randint(1, 2)
        mx = mn + rng.randint(1, 2)
        reqs = []
        for qn in range(rng.randint(40, 120)):
            r = call_for(rng.choice(["emSelected", "emSelected", "emMulti", "em"]), ["r1", "r2"], 2)
            r.update(q=qn + 1, keys=[], fail="")
            reqs.append(r)
        sessions.append({"id": 300000 + i, "kind": "manage", "min": mn, "max": mx, "model": 1, "rules": V(1), "gated": False, "checkv": True,
                         "script": [{"op": "emstorm", "reqs": reqs, "flips": 100000}, {"op": "quiesce"}, {"op": "query", "args": UNIVERSE},
                                    probe(len(reqs), mx, UNIVERSE[:4], 0, rng), {"op": "quiesce"}]})
    if getattr(run, "collect", None) is not None:
        run.collect["manage"] = sessions
        return 0
    ns = run_sessions(run, sessions, "manage")

    def corrupt(evs):     # a query answers with the previous version
        i = max(i for i, e in enumerate(evs) if e["ev"] == "query" and e["kind"] == "number")
        evs[i] = dict(evs[i], res=evs[i]["res"] + 1)
        return evs
    self_test(run, sessions[:25], corrupt, "good trace accepted; a wrong rule count answer rejected")
    run.cov["evaluations"] = ns
    run.cov["distinct_nontrivial"] = len({json.dumps(s["script"], sort_keys=True) for s in sessions})
    run.assumptions += ["every instance is reached by parking exactly max requests on gates; the serving instance is known from the pop hook",
                        "rule descriptions carry the body tag, saliences are a fixed function of the tag"]
    return run.finish("model_checking",
                      "histories = every sequence of <=2 (thorough 3) management operations over {full A, full B, incremental new / replace / "
                      "changed salience, remove present / absent / no names / two at once, clear, set model 2 3 4 9, failing full / incremental text} enumerated "
                      "by TLC on a (1,2) pool, plus seeded random sequences of 3-7 operations on pools up to (3,6); after EVERY operation all "
                      "queries are asked and one execution is forced onto every instance")


def upd_session(sid, rec, rng):
    mn, mx = rec["pool"]
    names = ["r1", "r2", "r3"]
    m = rec["method"]
    k = rec["kind"]
    if k == "fullSame":
        u = {"kind": "full", "rules": V(2, names), "names": []}
        after = names
    elif k == "fullOther":
        u = {"kind": "full", "rules": V(2, ("r2", "r3", "r4")), "names": []}
        after = ["r2", "r3", "r4"]
    elif k == "incrRepl":
        u = {"kind": "incr", "rules": V(2, ("r2", "r3")), "names": []}
        after = names
    elif k == "incrNew":
        u = {"kind": "incr", "rules": V(2, ("r4", "r2")), "names": []}
        after = names + ["r4"]
    elif k == "remove":
        u = {"kind": "remove", "rules": [], "names": ["r2"]}
        after = ["r1", "r3"]
    elif k == "removeEnds":
        # removes a rule that already ran and one that has not run yet when triggered from the middle rule
        u = {"kind": "remove", "rules": [], "names": ["r1", "r3"]}
        after = ["r2"]
    elif k == "incrKeepSal":
        u = {"kind": "incr", "rules": V(2, ("r1", "r3"), {n: code_of(t["tag"]) for n, t in zip(names, V(1, names))}), "names": []}
        after = names
    else:
        u = {"kind": "clear", "rules": [], "names": []}
        after = []
    keeps_count = k in ("fullSame", "incrRepl", "incrKeepSal")
    if m.startswith("ExecuteN") or m.startswith("ExecuteSelectedN"):
        if not keeps_count:
            return None      # a window model needs n+m = number of rules in every version
    uni = ["r1", "r2", "r3", "r4"]
    target = names if (m.startswith("ExecuteN") or m.startswith("ExecuteSelectedN")) else uni
    script = []
    q = 0
    where = rec["where"]

    def req(trigger=None, trigrule=""):
        nonlocal q
        q += 1
        r = call_for(m, target, 3)
        if m == "ExecuteDAGModel":
            r["dag"] = [["r1"], ["r2", "r4"], ["r3"]]
            r["names"] = uni
        r.update(q=q, keys=[], fail="", trigger=trigger, trigrule=trigrule)
        return r
    if where.startswith("inrule"):
        script.append({"op": "burst", "reqs": [req(u, "r" + where[-1])]})
    elif where == "racing":
        script.append({"op": "mixed", "reqs": [req() for _ in range(rng.randint(1, mx + 1))], "updates": [u]})
    else:
        script.append({"op": "burst", "reqs": [req()]})
        script.append({"op": "update", "update": u})
    # after the update returned: every instance must run the new version
    script.append({"op": "quiesce"})
    script.append(probe(q, mx, uni, 0, rng))
    script.append({"op": "quiesce"})
    return {"id": sid, "kind": "updates", "min": mn, "max": mx, "model": rng.randint(1, 4), "rules": V(1, names), "gated": True,
            "checkv": True, "script": script}


def check_c07(run):
    rng = random.Random(run.seed)
    quick = run.tier == "quick"
    mc(run, "upd1.cfg", pool_cfg(2, 1, 2, True, 2, 2, ["Conservation", "OneVersion", "AgreeWhenIdle"]))
    if not quick:
        mc(run, "upd2.cfg", pool_cfg(3, 1, 2, True, 3, 2, ["Conservation", "OneVersion", "AgreeWhenIdle"]))
    # the model distinguishes: with per-stage re-reads (the code as found) TLC exhibits the torn execution
    # management calls made at once (lock hand-over rule of Inside(u)): all interleavings of 2 callers and 2 requests
    mc(run, "updrace.cfg", pool_cfg(2, 1, 2, True, 2 if quick else 3, 2, ["Conservation", "OneVersion", "AgreeWhenIdleU", "NoTornPublish"], spec="MCSpecU"))
    r = mc(run, "updbad.cfg", pool_cfg(2, 1, 2, False, 2, 2, ["OneVersion"]), expect_ok=False)
    if r.ok or r.invariant != "OneVersion":
        raise Infra("vacuity guard: the as-found variant (Pinned = FALSE) should violate OneVersion")
    run.cov["model_distinguishes"] = "Pinned=FALSE (re-read of the container per stage) violates OneVersion; Pinned=TRUE satisfies it"
    g = gen(run, "SPECIFICATION GSpec\nCONSTANTS\n  GOps = 1\n  GBurst = 1\n  GIso = 2\n")
    sessions = []
    for i, rec in enumerate(g["updates"]):
        s = upd_session(i + 1, rec, rng)
        if s:
            sessions.append(s)
    # a removal followed by re-installing the byte-identical text the pool was built from
    for i in range(12):
        mn, mx = rng.choice([(1, 2), (2, 3)])
        names = ("r1", "r2", "r3")
        via_full = i % 2 == 0
        script = []
        if via_full:
            script.append({"op": "update", "update": {"kind": "full", "rules": V(1, names), "names": []}})
        script += [{"op": "update", "update": {"kind": "remove", "rules": [], "names": [rng.choice(names)]}},
                   probe(0, mx, ["r1", "r2", "r3", "r4"], 0, rng), {"op": "quiesce"},
                   {"op": "update", "update": {"kind": "full", "rules": V(1, names), "names": []}},
                   probe(mx, mx, ["r1", "r2", "r3", "r4"], 0, rng), {"op": "quiesce"}]
        sessions.append({"id": 50000 + i, "kind": "updates", "min": mn, "max": mx, "model": rng.randint(1, 4),
                         "rules": V(1, names), "gated": True, "checkv": True, "script": script})
    # random mixes: several updates racing with several requests
    kinds = ["fullSame", "fullOther", "incrRepl", "incrNew", "remove"]
    for i in range(40 if quick else 1500):
        mn = rng.randint(1, 2)
        mx = mn + rng.randint(1, 3)
        names = ["r1", "r2", "r3"]
        ver = 1
        script = []
        q = 0
        for b in range(rng.randint(1, 3)):
            ups = []
            for _ in range(rng.randint(1, 2)):
                ver += 1
                k = rng.choice(kinds)
                if k == "fullSame":
                    ups.append({"kind": "full", "rules": V(ver, ("r1", "r2", "r3")), "names": []})
                elif k == "fullOther":
                    ups.append({"kind": "full", "rules": V(ver, tuple(rng.sample(["r1", "r2", "r3", "r4"], rng.randint(1, 4)))), "names": []})
                elif k == "incrRepl":
                    ups.append({"kind": "incr", "rules": V(ver, tuple(rng.sample(["r1", "r2", "r3"], 2))), "names": []})
                elif k == "incrNew":
                    ups.append({"kind": "incr", "rules": V(ver, ("r4",)), "names": []})
                else:
                    x = rng.choice(["r1", "r2", "r4"])
                    # sometimes padded with unknown and repeated names (as many names as rules or more)
                    ups.append({"kind": "remove", "rules": [], "names": rng.choice([[x], [x], [x, "zz", "yy", x], ["zz", x, "zz"]])})
            reqs = []
            for _ in range(rng.randint(1, mx + 2)):
                q += 1
                m = rng.choice(["Execute", "ExecuteConcurrent", "ExecuteMixModel", "ExecuteInverseMixModel", "ExecuteDAGModel",
                                "ExecuteSelectedRules", "ExecuteSelectedRulesConcurrent", "emMulti", "emSelected",
                                "ExecuteSelectedRulesWithControlAsGivenSortedName", "ExecuteSelectedRulesMixModel"])
                r = call_for(m, ["r1", "r2", "r3", "r4"], 0)
                r.update(q=q, keys=[], fail="")
                reqs.append(r)
            script.append({"op": "mixed", "reqs": reqs, "updates": ups})
            script.append({"op": "quiesce"})
            script.append(probe(q, mx, ["r1", "r2", "r3", "r4"], 0, rng))
            q += mx
            script.append({"op": "quiesce"})
        sessions.append({"id": 100000 + i, "kind": "updates", "min": mn, "max": mx, "model": rng.randint(1, 4),
                         "rules": V(1, tuple(names)), "gated": True, "checkv": True, "script": script})
    # several management calls AT ONCE (each on its own goroutine, parked at the hooks inside the update lock), with
    # requests; afterwards every query is asked and every instance probed: the outcome must be the one of SOME serial
    # order of the calls, namely the order in which their hook events show them inside the lock
    for i in range(80 if quick else 2500):
        mn = rng.randint(1, 2)
        mx = mn + rng.randint(1, 2)
        ver = 1
        script = []
        q = 0
        for b in range(rng.randint(1, 2)):
            ups = []
            for _ in range(rng.randint(2, 3)):
                ver += 1
                k = rng.choice(["full", "incrRepl", "incrNew", "incrNew", "incrMix", "remove", "remove", "badincr", "clear"] if b else
                               ["full", "incrRepl", "incrNew", "incrNew", "incrMix", "remove", "remove", "badincr"])
                if k == "full":
                    ups.append({"kind": "full", "rules": V(ver, tuple(sorted(rng.sample(["r1", "r2", "r3", "r4"], rng.randint(1, 4))))), "names": []})
                elif k == "incrRepl":
                    ups.append({"kind": "incr", "rules": V(ver, tuple(sorted(rng.sample(["r1", "r2", "r3"], rng.randint(1, 2))))), "names": []})
                elif k == "incrNew":
                    ups.append({"kind": "incr", "rules": V(ver, (rng.choice(["r4", "r5", "r6"]),)), "names": []})
                elif k == "incrMix":
                    ups.append({"kind": "incr", "rules": V(ver, (rng.choice(["r1", "r2"]), rng.choice(["r5", "r6"]))), "names": []})
                elif k == "remove":
                    x = rng.choice(["r1", "r2", "r3", "r4"])
                    ups.append({"kind": "remove", "rules": [], "names": rng.choice([[x], [x], [x, "zz", "yy", x, "zz"]])})
                elif k == "clear":
                    ups.append({"kind": "clear", "rules": [], "names": []})
                else:
                    ups.append({"kind": "badincr", "rules": [], "names": []})
            reqs = []
            for _ in range(rng.randint(0, mx + 1)):
                q += 1
                m = rng.choice(["Execute", "ExecuteConcurrent", "ExecuteMixModel", "ExecuteDAGModel", "ExecuteSelectedRules", "emMulti"])
                r = call_for(m, ["r1", "r2", "r3", "r4", "r5", "r6"], 0)
                r.update(q=q, keys=[], fail="")
                reqs.append(r)
            script.append({"op": "updrace", "reqs": reqs, "updates": ups, "racequeries": True})
            script.append({"op": "quiesce"})
            script.append({"op": "query", "args": ["r1", "r2", "r3", "r4", "r5", "r6", "zz"]})
            script.append(probe(q, mx, ["r1", "r2", "r3", "r4", "r5", "r6"], 0, rng))
            q += mx
            script.append({"op": "quiesce"})
        sessions.append({"id": 200000 + i, "kind": "updates", "min": mn, "max": mx, "model": rng.randint(1, 4),
                         "rules": V(1, ("r1", "r2", "r3")), "gated": rng.random() < 0.8, "checkv": True, "script": script})
    if getattr(run, "collect", None) is not None:
        run.collect["updates"] = sessions
        return 0
    ns = run_sessions(run, sessions, "updates")

    def corrupt(evs):     # one rule of an execution reports the body of another version
        i = max(i for i, e in enumerate(evs) if e["ev"] == "rule")
        evs[i] = dict(evs[i], tag=evs[i]["tag"] + 10)
        return evs
    self_test(run, sessions[:25], corrupt, "good trace accepted; an execution that mixes body tags of two versions rejected")
    run.cov["evaluations"] = ns
    run.cov["distinct_nontrivial"] = len({json.dumps(s["script"], sort_keys=True) for s in sessions})
    run.assumptions += ["an update `triggered from inside a running rule` is an injected function called by a rule body",
                        "updates racing with requests are steered by blocking hooks at every per-instance publication and between the two "
                        "stores of the incremental update; schedules on the code are steered and sampled, all interleavings only on the model"]
    return run.finish("model_checking",
                      "scenarios = update kind (full same names / full other names / incremental replace / incremental new / removal / clear) x "
                      "16 pool execute methods x where the update lands (inside rule 1, 2 or 3 of the running execution, racing with gated "
                      "publications, after the execution) x pool (1,2) (2,3), enumerated by TLC; plus seeded random mixes of 1-2 updates racing "
                      "with up to max+2 requests; after every returned update one execution is forced onto every instance; every execution "
                      "must have run exactly the targeted rules of ONE version of its real-time window")
