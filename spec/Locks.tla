-------------------------------- MODULE Locks --------------------------------
(***************************************************************************)
(* C19: the lock discipline of gengine's own shared state.                 *)
(*                                                                         *)
(* Every access to a shared variable is a non-atomic begin/end pair; a     *)
(* process is a straight-line program of lock acquisitions, releases and   *)
(* accesses, transcribed from the critical sections of gengine_pool.go,    *)
(* gengine.go, data_context.go and conc_statement.go.  Two accesses        *)
(* conflict when they overlap in time, touch the same variable, come from  *)
(* different processes and at least one writes.                            *)
(*                                                                         *)
(* AsFound = TRUE gives the programs of the code as it was found (list     *)
(* lengths read outside the list locks, cleared flag / model / published   *)
(* container read without updateLock): TLC exhibits the conflicts.         *)
(***************************************************************************)
EXTENDS Integers, Sequences, FiniteSets, TLC

CONSTANTS AsFound

Acq(l) == [op |-> "acq", x |-> l, m |-> ""]
Rel(l) == [op |-> "rel", x |-> l, m |-> ""]
Rd(v) == [op |-> "acc", x |-> v, m |-> "r"]
Wr(v) == [op |-> "acc", x |-> v, m |-> "w"]

\* a pool request: cleared test, getGengine, prepare (pin the container, inject),
\* a rule goroutine writing the result map, release (delete keys), spawn of the push
Request ==
  (IF AsFound THEN <<Rd("clear")>> ELSE <<Acq("updL"), Rd("clear"), Rel("updL")>>)
  \o <<Acq("getL")>>
  \o (IF AsFound THEN <<Rd("free"), Acq("runL"), Rd("free"), Wr("free"), Rel("runL")>>
      ELSE <<Acq("runL"), Rd("free"), Wr("free"), Rel("runL")>>)
  \o <<Rel("getL")>>
  \o (IF AsFound THEN <<Rd("slot")>> ELSE <<Acq("updL"), Rd("slot"), Rel("updL")>>)
  \o <<Acq("baseL"), Wr("dcbase"), Rel("baseL")>>
  \o (IF AsFound THEN <<Rd("model")>> ELSE <<Acq("updL"), Rd("model"), Rel("updL")>>)
  \o <<Acq("resL"), Wr("result"), Rel("resL")>>
  \o <<Acq("baseL"), Wr("dcbase"), Rel("baseL")>>

\* the asynchronous hand-back goroutine
Pusher == <<Acq("runL"), Wr("free"), Rel("runL")>>
\* a second rule goroutine of the same call (concurrent models): result map, data context, locals of a conc block
RuleGo == <<Acq("baseL"), Rd("dcbase"), Rel("baseL"), Acq("varsL"), Wr("vars"), Rel("varsL"), Acq("resL"), Wr("result"), Rel("resL")>>
\* a management call: full / incremental update, clear, set model
Updater == <<Acq("updL"), Wr("slot"), Wr("clear"), Rel("updL"), Acq("updL"), Wr("model"), Rel("updL")>>

Procs == {"req1", "req2", "push", "rule", "upd"}
Prog(p) == CASE p \in {"req1", "req2"} -> Request [] p = "push" -> Pusher [] p = "rule" -> RuleGo [] p = "upd" -> Updater

VARIABLES pc, held, open
lkvars == <<pc, held, open>>

LInit == pc = [p \in Procs |-> 1] /\ held = [l \in {"getL", "runL", "updL", "resL", "varsL", "baseL"} |-> "none"] /\ open = {}

Step(p) ==
  /\ pc[p] <= Len(Prog(p))
  /\ LET s == Prog(p)[pc[p]] IN
     CASE s.op = "acq" -> /\ held[s.x] = "none" /\ open \cap {o \in open : o.p = p} = {}
                          /\ held' = [held EXCEPT ![s.x] = p] /\ pc' = [pc EXCEPT ![p] = @ + 1] /\ UNCHANGED open
       [] s.op = "rel" -> /\ held[s.x] = p
                          /\ held' = [held EXCEPT ![s.x] = "none"] /\ pc' = [pc EXCEPT ![p] = @ + 1] /\ UNCHANGED open
       [] s.op = "acc" -> \* begin the access, or end it if it is open
                          IF \E o \in open : o.p = p
                          THEN /\ open' = {o \in open : o.p # p} /\ pc' = [pc EXCEPT ![p] = @ + 1] /\ UNCHANGED held
                          ELSE /\ open' = open \cup {[p |-> p, v |-> s.x, m |-> s.m]} /\ UNCHANGED <<pc, held>>
LNext == \E p \in Procs : Step(p)
LSpec == LInit /\ [][LNext]_lkvars

NoConflict == \A a, b \in open : (a.p # b.p /\ a.v = b.v) => (a.m = "r" /\ b.m = "r")
=============================================================================
