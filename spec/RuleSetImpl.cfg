SPECIFICATION ISpec
CONSTANTS
  Names = {"a", "b", "c", "d"}
  Sals = {0, 1, 2}
  MaxOld = 3
  MaxNew = 2
  Slack = 1
  AlwaysFresh = FALSE
