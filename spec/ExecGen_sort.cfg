SPECIFICATION GSpec
CONSTANTS
  MCNames <- Names3
  MCUnknown <- Unk
  MCSal <- Sal3
  MCMethods <- SortMethods
  MCMaxNames = 3
  MCDags <- NoDag
  MCNM <- NoNM
  GenBeh <- Beh3
  GenTag = FALSE
