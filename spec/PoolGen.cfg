SPECIFICATION GSpec
CONSTANTS
  GOps = 3
  GBurst = 4
  GIso = 4
