------------------------------ MODULE PoolTrace ------------------------------
(* Trace specification for Pool (events recorded by harness/cmd/pooldrv:     *)
(* hook events pop/spin/push/publish/incr_mid, driver events pnew/arrive/     *)
(* rule/peek/req_end/upd_begin/upd_end/setmodel/query/quiesce).              *)
EXTENDS Pool, Json

CONSTANT CheckLocks   \* TRUE: the hooks' TryLock bits must show the guarding lock held (C19)

VARIABLE l
Trace == ndJsonDeserialize("trace.ndjson")
Ev == Trace[l]
IsEvent(e) == l <= Len(Trace) /\ Trace[l].ev = e /\ l' = l + 1
Max2(a, b) == IF a >= b THEN a ELSE b

EmptyPool ==
  /\ pmin = 0 /\ pmax = 0 /\ free = {} /\ holder = <<>> /\ transit = {} /\ dc = <<>> /\ rq = <<>>
  /\ cur = <<>> /\ cleared = FALSE /\ inst = <<>> /\ vers = <<>> /\ done = 0 /\ pend = NoPend /\ model = 1 /\ upq = <<>> /\ fin = <<>>
TraceInit == EmptyPool /\ l = 1

TSession  == IsEvent("session") /\ UNCHANGED pvars
TNew      == IsEvent("pnew") /\ PNewCore(Ev.min, Ev.max, Ev.rules, Ev.model)
TNewTry   == IsEvent("pnew_try") /\ ~Ev.panic /\ PNewTryCore(Ev.min, Ev.max, Ev.model, Ev.textok, Ev.ok)
TArrive   == IsEvent("arrive") /\ ArriveCore(Ev.q, Rng(Ev.keys), Ev.names, Ev.fail, Ev.failmay, Ev.ord)
TPop      == IsEvent("pop") /\ (CheckLocks => Ev.locked = 1) /\ PopCore(Ev.q, Ev.i, Ev.len)
TSpin     == IsEvent("spin") /\ SpinCore(Ev.q)
TPeek     == IsEvent("peek") /\ PeekCore(Ev.q, Ev.key, Ev.val)
TArgPair  == IsEvent("argpair") /\ ArgPairCore(Ev.a, Ev.b)
TRule     == IsEvent("rule") /\ RuleRunCore(Ev.q, Ev.r, Ev.tag)
TReturn   == IsEvent("req_end") /\ ReturnCore(Ev.q, Ev.err, Ev.vals, Ev.cv) /\ (Ev.full => (~Ev.err /\ FullRun(Ev.q)))
TPush     == IsEvent("push") /\ (CheckLocks => Ev.locked = 1) /\ PushCore(Ev.i, Ev.len)
TClear    == IsEvent("clear") /\ ClearCore(Ev.q, Ev.i)
TPut      == IsEvent("put") /\ PutCore(Ev.q, Ev.i)
TQuiesce  == IsEvent("quiesce") /\ QuiesceCore
TFrozen   == IsEvent("frozen") /\ FrozenCore(Ev.q, Ev.same)
TUpdBegin == IsEvent("upd_begin") /\ UpdCallCore(Ev.u, Ev.kind, Ev.rules, Ev.names)
TPublish  == IsEvent("publish") /\ PublishCoreU(Ev.u)
TIncrMid  == IsEvent("incr_mid") /\ IncrMidCoreU(Ev.u)
TUpdEnd   == IsEvent("upd_end") /\ ~Ev.panic /\ UpdEndCoreU(Ev.u, Ev.ok)
TSetModel == IsEvent("setmodel") /\ SetModelCore(Ev.m, Ev.ok)
TQuery    == IsEvent("query") /\ QueryCore(Ev.kind, Ev.arg, Ev.res, Ev.err)

TraceProper == TSession \/ TNew \/ TNewTry \/ TArrive \/ TPop \/ TSpin \/ TPeek \/ TArgPair \/ TRule \/ TReturn \/ TPush \/ TClear \/ TPut
               \/ TQuiesce \/ TFrozen \/ TUpdBegin \/ TPublish \/ TIncrMid \/ TUpdEnd \/ TSetModel \/ TQuery

NextSession(i) ==
  IF \E j \in (i+1)..Len(Trace) : Trace[j].ev = "session"
  THEN CHOOSE j \in (i+1)..Len(Trace) :
         /\ Trace[j].ev = "session"
         /\ \A m \in (i+1)..(j-1) : Trace[m].ev # "session"
  ELSE Len(Trace) + 1
TraceSkip ==
  /\ l <= Len(Trace)
  /\ ~ENABLED TraceProper
  /\ TLCSet(2, Append(TLCGet(2), l))
  /\ l' = NextSession(l)
  /\ pmin' = 0 /\ pmax' = 0 /\ free' = {} /\ holder' = <<>> /\ transit' = {} /\ dc' = <<>> /\ rq' = <<>>
  /\ cur' = <<>> /\ cleared' = FALSE /\ inst' = <<>> /\ vers' = <<>> /\ done' = 0 /\ pend' = NoPend /\ model' = 1 /\ upq' = <<>> /\ fin' = <<>>
TraceNext == TraceProper \/ TraceSkip
TraceSpec == TraceInit /\ [][TraceNext]_<<pvars, l>>
Mark == TLCSet(1, Max2(TLCGet(1), l))
ASSUME TLCSet(1, 1) /\ TLCSet(2, <<>>)
TraceAccepted ==
  /\ JsonSerialize("result.json", [hwm |-> TLCGet(1), len |-> Len(Trace), rej |-> TLCGet(2)])
  /\ TLCGet(1) = Len(Trace) + 1
=============================================================================
