-------------------------------- MODULE Pool --------------------------------
(***************************************************************************)
(* The pooled engine (engine/gengine_pool.go): instance bookkeeping        *)
(* (C17), per-request data context (C06), rule-set versions under hot      *)
(* updates (C07) and management operations / queries (C16).                *)
(*                                                                         *)
(* Instances 0..Min-1 start in the free list, Min..Max-1 in the list of    *)
(* additional instances.  A request arrives, pops an instance (or spins),  *)
(* injects its keys into that instance's data context, runs rules, deletes *)
(* its keys and hands the instance to an asynchronous push.  Updates are   *)
(* sequences of critical-section steps: begin, one publication per         *)
(* instance, end.                                                          *)
(*                                                                         *)
(* Actions carry the logged arguments of the corresponding hook / driver   *)
(* events, so the trace specification is deterministic.                    *)
(***************************************************************************)
EXTENDS Integers, Sequences, FiniteSets, TLC

CONSTANTS None        \* a value different from every request id

VARIABLES
    pmin, pmax,   \* pool sizes
    free,         \* set of instances in the free / additional lists
    holder,       \* [inst -> request | None]
    transit,      \* instances released by their request, push pending
    dc,           \* [inst -> [key -> owning request]]   injected keys
    rq,           \* [request -> [st, inst, keys, names, lo, ran]]
    cur,          \* the denoted (master) rule set: [name -> body tag]
    cleared,      \* ClearPoolRules was the last effective management operation
    inst,         \* [inst -> rule set installed on that instance]
    vers,         \* sequence of all rule sets ever denoted (vers[1] = initial)
    done,         \* number of versions whose update call has returned (index into vers)
    pend,         \* update holding the update lock: [kind, target, npub, id] or kind = "none"
    model,        \* execution model set by SetExecModel
    upq,          \* [update id -> [kind, rules, names]]  management calls made, not yet seen inside the lock
    fin           \* [update id -> TRUE]  updates known to have completed whose return was not yet logged

pvars == <<pmin, pmax, free, holder, transit, dc, rq, cur, cleared, inst, vers, done, pend, model, upq, fin>>

Insts == 0..(pmax - 1)
Rng(s) == {s[i] : i \in DOMAIN s}
NoPend == [kind |-> "none", target |-> <<>>, npub |-> 0, id |-> 0]
Restrict(f, S) == [x \in (DOMAIN f) \cap S |-> f[x]]
AsTags(rules) == [x \in {rules[i].name : i \in DOMAIN rules} |->
                    rules[CHOOSE i \in DOMAIN rules : rules[i].name = x].tag]

\* generated rules carry their body tag in the description ("tag-N") and a
\* salience that is a fixed function of the tag
SalOf(t) == ((t \div 10) % 10) - 3     \* tag = version * 100 + salience code * 10 + rule index

-----------------------------------------------------------------------------
(* Construction *)
PNewCore(mn, mx, rules, m) ==
  /\ pmin' = mn /\ pmax' = mx
  /\ free' = 0..(mx - 1)
  /\ holder' = [i \in 0..(mx - 1) |-> None]
  /\ transit' = {}
  /\ dc' = [i \in 0..(mx - 1) |-> <<>>]
  /\ rq' = <<>>
  /\ cur' = AsTags(rules) /\ cleared' = FALSE
  /\ inst' = [i \in 0..(mx - 1) |-> AsTags(rules)]
  /\ vers' = <<AsTags(rules)>> /\ done' = 1 /\ pend' = NoPend
  /\ model' = m /\ upq' = <<>> /\ fin' = <<>>

\* a construction attempt: it succeeds exactly for 0 < min < max, a model in 1..4 and a text that compiles
PNewTryCore(mn, mx, m, textok, ok) ==
  /\ ok = (0 < mn /\ mn < mx /\ m \in 1..4 /\ textok)
  /\ UNCHANGED pvars

-----------------------------------------------------------------------------
(* Requests *)

\* keys: the names the request injects; names: the rule names its method
\* targets ("*" = all installed rules)
\* fail: a rule of this request fails at run time (so the call reports an error)
\* names under which the pool was given an api object at construction; a request may inject its own object under
\* such a name: for that request the name refers to its object, afterwards never to it again (whether the api
\* object is visible again to later requests is not promised: failmay)
ApiKeys == {"kd"}
ApiVal == 0 - 7

\* ord: what the request's execution model promises about the order in which its rule bodies start
\*   "sort" non-increasing salience   "head" the first one has the highest salience   "none" nothing
ArriveCore(q, keys, names, fail, failmay, ord) ==
  /\ q \notin DOMAIN rq
  /\ ord \in {"sort", "head", "none"}
  /\ rq' = (q :> [st |-> "arrived", inst |-> -1, keys |-> keys, names |-> names, fail |-> fail, failmay |-> failmay,
                  ord |-> ord, first |-> 0, snap |-> {},
                  lo |-> done, ran |-> <<>>, wasCleared |-> cleared]) @@ rq
  /\ UNCHANGED <<pmin, pmax, free, holder, transit, dc, cur, cleared, inst, vers, done, pend, model, upq, fin>>

\* instances of the same list (resident: below pmin, additional: the others) that are free
SameList(i, F) == {j \in F : (j < pmin) = (i < pmin)}

\* hook "pop": instance i was taken out of its list for request q; n = length of
\* that list after the pop, as the implementation sees it
PopCore(q, i, n) ==
  /\ q \in DOMAIN rq /\ rq[q].st = "arrived"
  /\ i \in free /\ holder[i] = None
  /\ n = Cardinality(SameList(i, free \ {i}))
  /\ free' = free \ {i}
  /\ holder' = [holder EXCEPT ![i] = q]
  /\ dc' = [dc EXCEPT ![i] = [k \in rq[q].keys |-> q] @@ @]
  \* i leaves the list: it is no longer "free ever since" any waiter's last look (see SpinCore)
  /\ rq' = [p \in DOMAIN rq |-> IF p = q THEN [rq[p] EXCEPT !.st = "holding", !.inst = i, !.snap = {}]
                                          ELSE [rq[p] EXCEPT !.snap = @ \ {i}]]
  /\ UNCHANGED <<pmin, pmax, transit, cur, cleared, inst, vers, done, pend, model, upq, fin>>

\* hook "spin": request q found nothing free and tries again.  The emptiness test may be stale, so a spin beside a
\* free instance is legal - once: between two spins of the same request lies a complete look at both lists, so an
\* instance that has been in its list ever since q's previous spin would have been taken ("waiters proceed").
\* snap = the instances that were free at q's last logged spin and have not been popped since.
SpinCore(q) ==
  IF q \in DOMAIN rq /\ rq[q].st = "arrived"
  THEN /\ rq[q].snap = {}
       /\ rq' = [rq EXCEPT ![q].snap = free]
       /\ UNCHANGED <<pmin, pmax, free, holder, transit, dc, cur, cleared, inst, vers, done, pend, model, upq, fin>>
  ELSE UNCHANGED pvars

\* a rule of request q read injected key `key` and found the object of request `val`
PeekCore(q, key, val) ==
  /\ q \in DOMAIN rq /\ rq[q].st = "holding"
  /\ IF key \in rq[q].keys
     THEN /\ key \in DOMAIN dc[rq[q].inst]
          /\ dc[rq[q].inst][key] = q
          /\ val = q
     ELSE \* not injected by this request: only the pool's own api object can be there
          key \in ApiKeys /\ val = ApiVal
  /\ UNCHANGED pvars

\* a call made by a rule received arguments a and b, both computed from the calling request's id
ArgPairCore(a, b) == a = b /\ UNCHANGED pvars

\* a rule body of request q ran: rule r compiled with body tag t
RuleRunCore(q, r, t) ==
  /\ q \in DOMAIN rq /\ rq[q].st = "holding"
  /\ r \notin DOMAIN rq[q].ran
  /\ rq[q].ord = "sort" => \A x \in DOMAIN rq[q].ran : SalOf(rq[q].ran[x]) >= SalOf(t)
  /\ (rq[q].ord = "head" /\ rq[q].ran # <<>>) => SalOf(rq[q].first) >= SalOf(t)
  /\ rq' = [rq EXCEPT ![q].ran = (r :> t) @@ @, ![q].first = IF rq[q].ran = <<>> THEN t ELSE @]
  /\ UNCHANGED <<pmin, pmax, free, holder, transit, dc, cur, cleared, inst, vers, done, pend, model, upq, fin>>

Release(q, h, t, d) ==   \* helper: holder, transit, dc after q gave its instance back
  LET i == rq[q].inst IN
  [holder |-> [h EXCEPT ![i] = None], transit |-> t \cup {i},
   dc |-> [d EXCEPT ![i] = [k \in (DOMAIN @) \ {kk \in DOMAIN @ : @[kk] = q} |-> @[k]]]]

\* What a request may have run: exactly the targeted rules of ONE version that
\* was current at some moment between its arrival and its return.
Targets(q, v) == IF rq[q].names = <<"*">> THEN v ELSE Restrict(v, Rng(rq[q].names))
VersionOK(q) ==
  LET hi == IF pend.kind = "none" THEN done ELSE done + 1
      cand == {vers[j] : j \in rq[q].lo..done} \cup
              (IF pend.kind # "none" THEN {pend.target} ELSE {})
  IN \E v \in cand : rq[q].ran = Targets(q, v)

\* a request that nothing stops (no failing rule, no stop tag of its own, no management call around) has run every
\* rule it targets - whatever an EARLIER request on the same instance did or left behind
FullRun(q) == rq[q].ran = Targets(q, cur)

\* driver event req_end: the call returned to its caller
\*   vals   : values of the result map (every rule returns its request's id)
\*   frozen : the map was found unmodified at the end of the history
ReturnCore(q, err, vals, checkVersion) ==
  /\ q \in DOMAIN rq
  /\ \A v \in Rng(vals) : v = q
  /\ IF rq[q].st = "arrived"
     THEN \* never popped: only legal when the pool was (or became) cleared
          /\ rq[q].wasCleared \/ cleared \/ pend.kind = "clear"
          /\ ~err
          /\ rq[q].ran = <<>>
          /\ rq' = [rq EXCEPT ![q].st = "returned"]
          /\ UNCHANGED <<holder, transit, dc>>
     ELSE /\ rq[q].st \in {"holding", "pushed"}
          \* when nothing ran (the targeted rule set is empty) error or not is unspecified
          /\ (DOMAIN rq[q].ran # {} /\ ~rq[q].failmay) => err = rq[q].fail
          /\ checkVersion => VersionOK(q)
          /\ rq' = [rq EXCEPT ![q].st = "returned"]
          /\ IF rq[q].st = "holding"
             THEN LET z == Release(q, holder, transit, dc) IN
                  holder' = z.holder /\ transit' = z.transit /\ dc' = z.dc
             ELSE UNCHANGED <<holder, transit, dc>>
  /\ UNCHANGED <<pmin, pmax, free, cur, cleared, inst, vers, done, pend, model, upq, fin>>

\* hook "clear": request q has dropped the data it injected into instance i.  Only the holder of an instance may
\* touch its data: once q has handed i back (hook "put") the instance can be anybody's.
ClearCore(q, i) ==
  /\ q \in DOMAIN rq /\ rq[q].st = "holding" /\ rq[q].inst = i /\ holder[i] = q
  /\ dc' = [dc EXCEPT ![i] = [k \in (DOMAIN @) \ {kk \in DOMAIN @ : @[kk] = q} |-> @[k]]]
  /\ UNCHANGED <<pmin, pmax, free, holder, transit, rq, cur, cleared, inst, vers, done, pend, model, upq, fin>>

\* hook "put": request q hands instance i back; the push into the list follows in a goroutine of its own.  This is
\* the release: from here on q does nothing more to the instance.
PutCore(q, i) ==
  /\ q \in DOMAIN rq /\ rq[q].st = "holding" /\ rq[q].inst = i /\ holder[i] = q
  /\ LET z == Release(q, holder, transit, dc) IN
       holder' = z.holder /\ transit' = z.transit /\ dc' = z.dc
  /\ rq' = [rq EXCEPT ![q].st = "pushed"]
  /\ UNCHANGED <<pmin, pmax, free, cur, cleared, inst, vers, done, pend, model, upq, fin>>

\* hook "push": instance i is back in its list.  The push goroutine may log
\* before the driver logs the return of the request, so a push of an instance
\* still held performs the release as well.
PushCore(i, n) ==
  /\ i \in Insts
  /\ n = Cardinality(SameList(i, free \cup {i}))      \* no instance was dropped from the list
  /\ IF i \in transit
     THEN /\ transit' = transit \ {i} /\ free' = free \cup {i}
          /\ UNCHANGED <<holder, dc, rq>>
     ELSE /\ holder[i] # None
          /\ LET q == holder[i]
                 z == Release(q, holder, transit, dc) IN
             /\ holder' = z.holder /\ dc' = z.dc
             /\ transit' = transit /\ free' = free \cup {i}
             /\ rq' = [rq EXCEPT ![q].st = "pushed"]
  /\ UNCHANGED <<pmin, pmax, cur, cleared, inst, vers, done, pend, model, upq, fin>>

\* driver event: the result map handed back to request q is compared with the copy taken at return
FrozenCore(q, same) == same /\ UNCHANGED pvars

\* driver event: after waiting for the asynchronous pushes the pool is whole again
QuiesceCore ==
  /\ free = Insts /\ transit = {}
  /\ \A i \in Insts : holder[i] = None /\ dc[i] = <<>>
  /\ \A q \in DOMAIN rq : rq[q].st = "returned"
  /\ UNCHANGED pvars

-----------------------------------------------------------------------------
(* Management *)

DenoteOn(c, kind, rules, names) ==
  CASE kind = "full"   -> AsTags(rules)
    [] kind = "incr"   -> AsTags(rules) @@ c
    [] kind = "remove" -> [x \in (DOMAIN c) \ Rng(names) |-> c[x]]
    [] kind = "clear"  -> <<>>
Denote(kind, rules, names) == DenoteOn(cur, kind, rules, names)

\* driver event upd_begin, logged before the call
UpdBeginCore(kind, rules, names) ==
  /\ pend.kind = "none"
  /\ kind \in {"full", "incr", "remove", "clear", "badfull", "badincr"}
  /\ pend' = IF kind \in {"badfull", "badincr"}
             THEN [kind |-> kind, target |-> cur, npub |-> 0, id |-> 0]
             ELSE [kind |-> kind, target |-> Denote(kind, rules, names), npub |-> 0, id |-> 0]
  /\ UNCHANGED <<pmin, pmax, free, holder, transit, dc, rq, cur, cleared, inst, vers, done, model, upq, fin>>

\* hook "publish": the next instance received the new rule set
PublishCore ==
  /\ pend.kind \in {"full", "incr", "remove", "clear"}
  /\ pend.npub < pmax
  /\ inst' = [inst EXCEPT ![pend.npub] = pend.target]
  /\ pend' = [pend EXCEPT !.npub = @ + 1]
  /\ UNCHANGED <<pmin, pmax, free, holder, transit, dc, rq, cur, cleared, vers, done, model, upq, fin>>

IncrMidCore == pend.kind = "incr" /\ UNCHANGED pvars

\* driver event upd_end: the call returned (ok = without error)
UpdEndCore(ok) ==
  /\ pend.kind # "none"
  /\ CASE pend.kind \in {"badfull", "badincr"} ->
            /\ ~ok /\ pend.npub = 0
            /\ UNCHANGED <<cur, cleared, vers, done>>
       [] pend.kind = "remove" /\ cleared ->
            \* removal on a cleared pool: nothing to remove; error or not is unspecified
            /\ UNCHANGED <<cur, cleared, vers, done>>
       [] pend.kind = "remove" /\ ~ok ->
            \* a removal may be refused only for an empty name list: nothing changed
            /\ pend.target = cur /\ pend.npub = 0
            /\ UNCHANGED <<cur, cleared, vers, done>>
       [] OTHER ->
            /\ ok /\ pend.npub = pmax
            /\ cur' = pend.target
            /\ cleared' = (pend.kind = "clear")
            /\ vers' = Append(vers, pend.target) /\ done' = done + 1
  /\ pend' = NoPend
  /\ UNCHANGED <<pmin, pmax, free, holder, transit, dc, rq, inst, model, upq, fin>>

-----------------------------------------------------------------------------
(* Concurrent callers of the management operations.  The calls serialise   *)
(* on the update lock.  The log has: upd_begin(u) written by the caller    *)
(* before the call, the hook events publish / incr_mid written INSIDE the  *)
(* lock and tagged with the update they belong to, and upd_end(u, ok)      *)
(* written by the caller after the return.  An update whose hook events    *)
(* appear while another update is inside the lock is legal only if that    *)
(* other update has published everywhere (it has completed; its return is  *)
(* logged later) - otherwise two updates were inside the critical section  *)
(* at once.                                                                *)
PubKinds == {"full", "incr", "remove", "clear"}
BadKinds == {"badfull", "badincr"}
Minus(f, u) == [x \in (DOMAIN f) \ {u} |-> f[x]]

UpdCallCore(u, kind, rules, names) ==
  /\ u \notin DOMAIN upq /\ u \notin DOMAIN fin /\ ~(pend.kind # "none" /\ pend.id = u)
  /\ kind \in PubKinds \cup BadKinds
  /\ upq' = (u :> [kind |-> kind, rules |-> rules, names |-> names]) @@ upq
  /\ UNCHANGED <<pmin, pmax, free, holder, transit, dc, rq, cur, cleared, inst, vers, done, pend, model, fin>>

\* what the completion of update p means for the denoted rule set: [legal, cur, cleared, vers, done]
EndState(p, ok) ==
  LET same == [cur |-> cur, cleared |-> cleared, vers |-> vers, done |-> done] IN
  CASE p.kind \in BadKinds -> [legal |-> ~ok /\ p.npub = 0] @@ same
    [] p.kind = "remove" /\ cleared -> [legal |-> TRUE] @@ same
    [] p.kind = "remove" /\ ~ok -> [legal |-> p.target = cur /\ p.npub = 0] @@ same
    [] OTHER -> [legal |-> ok /\ p.npub = pmax, cur |-> p.target, cleared |-> (p.kind = "clear"),
                 vers |-> Append(vers, p.target), done |-> done + 1]

StartRec(u, c) ==
  LET w == upq[u] IN
  [kind |-> w.kind, npub |-> 0, id |-> u,
   target |-> IF w.kind \in BadKinds THEN c ELSE DenoteOn(c, w.kind, w.rules, w.names)]

\* the state in which update u is inside the lock, given the log so far
Inside(u) ==
  LET here == [cur |-> cur, cleared |-> cleared, vers |-> vers, done |-> done] IN
  IF pend.kind # "none" /\ pend.id = u
  THEN [ok |-> TRUE, pend |-> pend, upq |-> upq, fin |-> fin] @@ here
  ELSE IF u \notin DOMAIN upq
  THEN [ok |-> FALSE, pend |-> pend, upq |-> upq, fin |-> fin] @@ here
  ELSE IF pend.kind = "none"
  THEN [ok |-> TRUE, pend |-> StartRec(u, cur), upq |-> Minus(upq, u), fin |-> fin] @@ here
  ELSE LET e == EndState(pend, TRUE) IN     \* the lock was handed over: the update in progress has completed
       [ok |-> e.legal, pend |-> StartRec(u, e.cur), upq |-> Minus(upq, u), fin |-> (pend.id :> TRUE) @@ fin,
        cur |-> e.cur, cleared |-> e.cleared, vers |-> e.vers, done |-> e.done]

PublishCoreU(u) ==
  LET b == Inside(u) IN
  /\ b.ok /\ b.pend.kind \in PubKinds /\ b.pend.npub < pmax
  /\ inst' = [inst EXCEPT ![b.pend.npub] = b.pend.target]
  /\ pend' = [b.pend EXCEPT !.npub = @ + 1]
  /\ cur' = b.cur /\ cleared' = b.cleared /\ vers' = b.vers /\ done' = b.done /\ upq' = b.upq /\ fin' = b.fin
  /\ UNCHANGED <<pmin, pmax, free, holder, transit, dc, rq, model>>

IncrMidCoreU(u) ==
  LET b == Inside(u) IN
  /\ b.ok /\ b.pend.kind = "incr" /\ b.pend.npub = 0
  /\ pend' = b.pend
  /\ cur' = b.cur /\ cleared' = b.cleared /\ vers' = b.vers /\ done' = b.done /\ upq' = b.upq /\ fin' = b.fin
  /\ UNCHANGED <<pmin, pmax, free, holder, transit, dc, rq, inst, model>>

UpdEndCoreU(u, ok) ==
  IF pend.kind # "none" /\ pend.id = u
  THEN LET e == EndState(pend, ok) IN
       /\ e.legal
       /\ cur' = e.cur /\ cleared' = e.cleared /\ vers' = e.vers /\ done' = e.done /\ pend' = NoPend
       /\ UNCHANGED <<pmin, pmax, free, holder, transit, dc, rq, inst, model, upq, fin>>
  ELSE IF u \in DOMAIN fin
  THEN /\ ok = fin[u] /\ fin' = Minus(fin, u)
       /\ UNCHANGED <<pmin, pmax, free, holder, transit, dc, rq, cur, cleared, inst, vers, done, pend, model, upq>>
  ELSE \* never seen inside the lock: the call ended without reaching a hook - it changed nothing
       /\ u \in DOMAIN upq
       /\ LET e == EndState(StartRec(u, cur), ok) IN e.legal /\ e.done = done
       /\ upq' = Minus(upq, u)
       /\ UNCHANGED <<pmin, pmax, free, holder, transit, dc, rq, cur, cleared, inst, vers, done, pend, model, fin>>

SetModelCore(m, ok) ==
  /\ ok = (m \in 1..4)
  /\ model' = IF ok THEN m ELSE model
  /\ UNCHANGED <<pmin, pmax, free, holder, transit, dc, rq, cur, cleared, inst, vers, done, pend, upq, fin>>


\* queries (only between updates): kind, argument, answer (numbers; booleans as 0/1)
QueryCore(kind, arg, res, err) ==
  /\ pend.kind = "none"
  /\ CASE kind = "exist"  -> res = (IF arg \in DOMAIN cur THEN 1 ELSE 0) /\ ~err
       [] kind = "number" -> res = Cardinality(DOMAIN cur) /\ ~err
       [] kind = "model"  -> res = model /\ ~err
       [] kind = "desc"   -> IF arg \in DOMAIN cur THEN res = cur[arg] /\ ~err ELSE err
       [] kind = "sal"    -> IF arg \in DOMAIN cur THEN res = SalOf(cur[arg]) /\ ~err ELSE err
  /\ UNCHANGED pvars

-----------------------------------------------------------------------------
(* Invariants of the design (model checking) *)
Conservation ==
  /\ \A i \in Insts : Cardinality({S \in {"free", "held", "transit"} :
        \/ S = "free" /\ i \in free
        \/ S = "held" /\ holder[i] # None
        \/ S = "transit" /\ i \in transit}) = 1
OneHolder ==
  \A q \in DOMAIN rq : rq[q].st = "holding" =>
     /\ holder[rq[q].inst] = q
     /\ \A p \in DOMAIN rq : (p # q /\ rq[p].st = "holding") => rq[p].inst # rq[q].inst
AtMostMax == Cardinality({q \in DOMAIN rq : rq[q].st = "holding"}) <= pmax
OwnKeysOnly ==
  \A i \in Insts : \A k \in DOMAIN dc[i] : holder[i] = dc[i][k]
=============================================================================
