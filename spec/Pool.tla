-------------------------------- MODULE Pool --------------------------------
(***************************************************************************)
(* The pooled engine (engine/gengine_pool.go): instance bookkeeping        *)
(* (C17), per-request data context (C06), rule-set versions under hot      *)
(* updates (C07) and management operations / queries (C16).                *)
(*                                                                         *)
(* Instances 0..Min-1 start in the free list, Min..Max-1 in the list of    *)
(* additional instances.  A request arrives, pops an instance (or spins),  *)
(* injects its keys into that instance's data context, runs rules, deletes *)
(* its keys and hands the instance to an asynchronous push.  Updates are   *)
(* sequences of critical-section steps: begin, one publication per         *)
(* instance, end.                                                          *)
(*                                                                         *)
(* Actions carry the logged arguments of the corresponding hook / driver   *)
(* events, so the trace specification is deterministic.                    *)
(***************************************************************************)
EXTENDS Integers, Sequences, FiniteSets, TLC

CONSTANTS None        \* a value different from every request id

VARIABLES
    pmin, pmax,   \* pool sizes
    free,         \* set of instances in the free / additional lists
    holder,       \* [inst -> request | None]
    transit,      \* instances released by their request, push pending
    dc,           \* [inst -> [key -> owning request]]   injected keys
    rq,           \* [request -> [st, inst, keys, names, lo, ran]]
    cur,          \* the denoted (master) rule set: [name -> body tag]
    cleared,      \* ClearPoolRules was the last effective management operation
    inst,         \* [inst -> rule set installed on that instance]
    vers,         \* sequence of all rule sets ever denoted (vers[1] = initial)
    done,         \* number of versions whose update call has returned (index into vers)
    pend,         \* update in progress: [kind, target, npub, ok] or [kind |-> "none"]
    model         \* execution model set by SetExecModel

pvars == <<pmin, pmax, free, holder, transit, dc, rq, cur, cleared, inst, vers, done, pend, model>>

Insts == 0..(pmax - 1)
Rng(s) == {s[i] : i \in DOMAIN s}
NoPend == [kind |-> "none"]
Restrict(f, S) == [x \in (DOMAIN f) \cap S |-> f[x]]
AsTags(rules) == [x \in {rules[i].name : i \in DOMAIN rules} |->
                    rules[CHOOSE i \in DOMAIN rules : rules[i].name = x].tag]

-----------------------------------------------------------------------------
(* Construction *)
PNewCore(mn, mx, rules, m) ==
  /\ pmin' = mn /\ pmax' = mx
  /\ free' = 0..(mx - 1)
  /\ holder' = [i \in 0..(mx - 1) |-> None]
  /\ transit' = {}
  /\ dc' = [i \in 0..(mx - 1) |-> <<>>]
  /\ rq' = <<>>
  /\ cur' = AsTags(rules) /\ cleared' = FALSE
  /\ inst' = [i \in 0..(mx - 1) |-> AsTags(rules)]
  /\ vers' = <<AsTags(rules)>> /\ done' = 1 /\ pend' = NoPend
  /\ model' = m

\* a construction attempt: it succeeds exactly for 0 < min < max, a model in 1..4 and a text that compiles
PNewTryCore(mn, mx, m, textok, ok) ==
  /\ ok = (0 < mn /\ mn < mx /\ m \in 1..4 /\ textok)
  /\ UNCHANGED pvars

-----------------------------------------------------------------------------
(* Requests *)

\* keys: the names the request injects; names: the rule names its method
\* targets ("*" = all installed rules)
\* fail: a rule of this request fails at run time (so the call reports an error)
\* names under which the pool was given an api object at construction; a request may inject its own object under
\* such a name: for that request the name refers to its object, afterwards never to it again (whether the api
\* object is visible again to later requests is not promised: failmay)
ApiKeys == {"kd"}
ApiVal == 0 - 7

ArriveCore(q, keys, names, fail, failmay) ==
  /\ q \notin DOMAIN rq
  /\ rq' = (q :> [st |-> "arrived", inst |-> -1, keys |-> keys, names |-> names, fail |-> fail, failmay |-> failmay,
                  lo |-> done, ran |-> <<>>, wasCleared |-> cleared]) @@ rq
  /\ UNCHANGED <<pmin, pmax, free, holder, transit, dc, cur, cleared, inst, vers, done, pend, model>>

\* instances of the same list (resident: below pmin, additional: the others) that are free
SameList(i, F) == {j \in F : (j < pmin) = (i < pmin)}

\* hook "pop": instance i was taken out of its list for request q; n = length of
\* that list after the pop, as the implementation sees it
PopCore(q, i, n) ==
  /\ q \in DOMAIN rq /\ rq[q].st = "arrived"
  /\ i \in free /\ holder[i] = None
  /\ n = Cardinality(SameList(i, free \ {i}))
  /\ free' = free \ {i}
  /\ holder' = [holder EXCEPT ![i] = q]
  /\ dc' = [dc EXCEPT ![i] = [k \in rq[q].keys |-> q] @@ @]
  /\ rq' = [rq EXCEPT ![q].st = "holding", ![q].inst = i]
  /\ UNCHANGED <<pmin, pmax, transit, cur, cleared, inst, vers, done, pend, model>>

\* hook "spin": a request found nothing free and tries again (always allowed:
\* the emptiness test may be stale)
SpinCore == UNCHANGED pvars

\* a rule of request q read injected key `key` and found the object of request `val`
PeekCore(q, key, val) ==
  /\ q \in DOMAIN rq /\ rq[q].st = "holding"
  /\ IF key \in rq[q].keys
     THEN /\ key \in DOMAIN dc[rq[q].inst]
          /\ dc[rq[q].inst][key] = q
          /\ val = q
     ELSE \* not injected by this request: only the pool's own api object can be there
          key \in ApiKeys /\ val = ApiVal
  /\ UNCHANGED pvars

\* a call made by a rule received arguments a and b, both computed from the calling request's id
ArgPairCore(a, b) == a = b /\ UNCHANGED pvars

\* a rule body of request q ran: rule r compiled with body tag t
RuleRunCore(q, r, t) ==
  /\ q \in DOMAIN rq /\ rq[q].st = "holding"
  /\ r \notin DOMAIN rq[q].ran
  /\ rq' = [rq EXCEPT ![q].ran = (r :> t) @@ @]
  /\ UNCHANGED <<pmin, pmax, free, holder, transit, dc, cur, cleared, inst, vers, done, pend, model>>

Release(q, h, t, d) ==   \* helper: holder, transit, dc after q gave its instance back
  LET i == rq[q].inst IN
  [holder |-> [h EXCEPT ![i] = None], transit |-> t \cup {i},
   dc |-> [d EXCEPT ![i] = [k \in (DOMAIN @) \ {kk \in DOMAIN @ : @[kk] = q} |-> @[k]]]]

\* What a request may have run: exactly the targeted rules of ONE version that
\* was current at some moment between its arrival and its return.
Targets(q, v) == IF rq[q].names = <<"*">> THEN v ELSE Restrict(v, Rng(rq[q].names))
VersionOK(q) ==
  LET hi == IF pend.kind = "none" THEN done ELSE done + 1
      cand == {vers[j] : j \in rq[q].lo..done} \cup
              (IF pend.kind # "none" THEN {pend.target} ELSE {})
  IN \E v \in cand : rq[q].ran = Targets(q, v)

\* driver event req_end: the call returned to its caller
\*   vals   : values of the result map (every rule returns its request's id)
\*   frozen : the map was found unmodified at the end of the history
ReturnCore(q, err, vals, checkVersion) ==
  /\ q \in DOMAIN rq
  /\ \A v \in Rng(vals) : v = q
  /\ IF rq[q].st = "arrived"
     THEN \* never popped: only legal when the pool was (or became) cleared
          /\ rq[q].wasCleared \/ cleared \/ pend.kind = "clear"
          /\ ~err
          /\ rq[q].ran = <<>>
          /\ rq' = [rq EXCEPT ![q].st = "returned"]
          /\ UNCHANGED <<holder, transit, dc>>
     ELSE /\ rq[q].st \in {"holding", "pushed"}
          \* when nothing ran (the targeted rule set is empty) error or not is unspecified
          /\ (DOMAIN rq[q].ran # {} /\ ~rq[q].failmay) => err = rq[q].fail
          /\ checkVersion => VersionOK(q)
          /\ rq' = [rq EXCEPT ![q].st = "returned"]
          /\ IF rq[q].st = "holding"
             THEN LET z == Release(q, holder, transit, dc) IN
                  holder' = z.holder /\ transit' = z.transit /\ dc' = z.dc
             ELSE UNCHANGED <<holder, transit, dc>>
  /\ UNCHANGED <<pmin, pmax, free, cur, cleared, inst, vers, done, pend, model>>

\* hook "push": instance i is back in its list.  The push goroutine may log
\* before the driver logs the return of the request, so a push of an instance
\* still held performs the release as well.
PushCore(i, n) ==
  /\ i \in Insts
  /\ n = Cardinality(SameList(i, free \cup {i}))      \* no instance was dropped from the list
  /\ IF i \in transit
     THEN /\ transit' = transit \ {i} /\ free' = free \cup {i}
          /\ UNCHANGED <<holder, dc, rq>>
     ELSE /\ holder[i] # None
          /\ LET q == holder[i]
                 z == Release(q, holder, transit, dc) IN
             /\ holder' = z.holder /\ dc' = z.dc
             /\ transit' = transit /\ free' = free \cup {i}
             /\ rq' = [rq EXCEPT ![q].st = "pushed"]
  /\ UNCHANGED <<pmin, pmax, cur, cleared, inst, vers, done, pend, model>>

\* driver event: the result map handed back to request q is compared with the copy taken at return
FrozenCore(q, same) == same /\ UNCHANGED pvars

\* driver event: after waiting for the asynchronous pushes the pool is whole again
QuiesceCore ==
  /\ free = Insts /\ transit = {}
  /\ \A i \in Insts : holder[i] = None /\ dc[i] = <<>>
  /\ \A q \in DOMAIN rq : rq[q].st = "returned"
  /\ UNCHANGED pvars

-----------------------------------------------------------------------------
(* Management *)

Denote(kind, rules, names) ==
  CASE kind = "full"   -> AsTags(rules)
    [] kind = "incr"   -> AsTags(rules) @@ cur
    [] kind = "remove" -> [x \in (DOMAIN cur) \ Rng(names) |-> cur[x]]
    [] kind = "clear"  -> <<>>

\* driver event upd_begin, logged before the call
UpdBeginCore(kind, rules, names) ==
  /\ pend.kind = "none"
  /\ kind \in {"full", "incr", "remove", "clear", "badfull", "badincr"}
  /\ pend' = IF kind \in {"badfull", "badincr"}
             THEN [kind |-> kind, target |-> cur, npub |-> 0]
             ELSE [kind |-> kind, target |-> Denote(kind, rules, names), npub |-> 0]
  /\ UNCHANGED <<pmin, pmax, free, holder, transit, dc, rq, cur, cleared, inst, vers, done, model>>

\* hook "publish": the next instance received the new rule set
PublishCore ==
  /\ pend.kind \in {"full", "incr", "remove", "clear"}
  /\ pend.npub < pmax
  /\ inst' = [inst EXCEPT ![pend.npub] = pend.target]
  /\ pend' = [pend EXCEPT !.npub = @ + 1]
  /\ UNCHANGED <<pmin, pmax, free, holder, transit, dc, rq, cur, cleared, vers, done, model>>

IncrMidCore == pend.kind = "incr" /\ UNCHANGED pvars

\* driver event upd_end: the call returned (ok = without error)
UpdEndCore(ok) ==
  /\ pend.kind # "none"
  /\ CASE pend.kind \in {"badfull", "badincr"} ->
            /\ ~ok /\ pend.npub = 0
            /\ UNCHANGED <<cur, cleared, vers, done>>
       [] pend.kind = "remove" /\ cleared ->
            \* removal on a cleared pool: nothing to remove; error or not is unspecified
            /\ UNCHANGED <<cur, cleared, vers, done>>
       [] pend.kind = "remove" /\ ~ok ->
            \* a removal may be refused only for an empty name list: nothing changed
            /\ pend.target = cur /\ pend.npub = 0
            /\ UNCHANGED <<cur, cleared, vers, done>>
       [] OTHER ->
            /\ ok /\ pend.npub = pmax
            /\ cur' = pend.target
            /\ cleared' = (pend.kind = "clear")
            /\ vers' = Append(vers, pend.target) /\ done' = done + 1
  /\ pend' = NoPend
  /\ UNCHANGED <<pmin, pmax, free, holder, transit, dc, rq, inst, model>>

SetModelCore(m, ok) ==
  /\ ok = (m \in 1..4)
  /\ model' = IF ok THEN m ELSE model
  /\ UNCHANGED <<pmin, pmax, free, holder, transit, dc, rq, cur, cleared, inst, vers, done, pend>>

\* generated rules carry their body tag in the description ("tag-N") and a
\* salience that is a fixed function of the tag
SalOf(t) == ((t \div 10) % 10) - 3     \* tag = version * 100 + salience code * 10 + rule index

\* queries (only between updates): kind, argument, answer (numbers; booleans as 0/1)
QueryCore(kind, arg, res, err) ==
  /\ pend.kind = "none"
  /\ CASE kind = "exist"  -> res = (IF arg \in DOMAIN cur THEN 1 ELSE 0) /\ ~err
       [] kind = "number" -> res = Cardinality(DOMAIN cur) /\ ~err
       [] kind = "model"  -> res = model /\ ~err
       [] kind = "desc"   -> IF arg \in DOMAIN cur THEN res = cur[arg] /\ ~err ELSE err
       [] kind = "sal"    -> IF arg \in DOMAIN cur THEN res = SalOf(cur[arg]) /\ ~err ELSE err
  /\ UNCHANGED pvars

-----------------------------------------------------------------------------
(* Invariants of the design (model checking) *)
Conservation ==
  /\ \A i \in Insts : Cardinality({S \in {"free", "held", "transit"} :
        \/ S = "free" /\ i \in free
        \/ S = "held" /\ holder[i] # None
        \/ S = "transit" /\ i \in transit}) = 1
OneHolder ==
  \A q \in DOMAIN rq : rq[q].st = "holding" =>
     /\ holder[rq[q].inst] = q
     /\ \A p \in DOMAIN rq : (p # q /\ rq[p].st = "holding") => rq[p].inst # rq[q].inst
AtMostMax == Cardinality({q \in DOMAIN rq : rq[q].st = "holding"}) <= pmax
OwnKeysOnly ==
  \A i \in Insts : \A k \in DOMAIN dc[i] : holder[i] = dc[i][k]
=============================================================================
