SPECIFICATION LSpec
CHECK_DEADLOCK FALSE
CONSTANTS
  LProgs <- Progs2
  LRules <- Rules2
  MaxEx = 3
INVARIANTS ReadsOwnWrites StartUndefined SharedInjected
