------------------------------- MODULE ExecGen -------------------------------
(***************************************************************************)
(* Scenario generator: TLC enumerates the bounded scenario space of Exec   *)
(* (the same MCScenarios the model checker explores) together with every   *)
(* assignment of rule outcomes, and writes it as ndjson for the replay     *)
(* driver.  No behaviours: everything happens in one ASSUME.               *)
(***************************************************************************)
EXTENDS ExecMC, Json, SequencesExt

CONSTANTS GenBeh,      \* outcomes a rule may be told to produce, e.g. {"ok","ret","fail"}
          GenTag       \* TRUE: also enumerate which single rule sets the stop tag

NameSeq(S) == SetToSeq(S)

RuleSeq(rs) == LET ns == NameSeq(DOMAIN rs) IN [i \in DOMAIN ns |-> [name |-> ns[i], sal |-> rs[ns[i]]]]

TagChoices(s) ==
  IF GenTag /\ s.method \in TagMethods
  THEN {<<>>} \cup {<<r>> : r \in DOMAIN s.rules}
  ELSE {<<>>}

GenOf(s) ==
  LET rq == RuleSeq(s.rules) IN
  { [method |-> s.method, rules |-> rq, b |-> s.b, names |-> s.names,
     n |-> s.nm[1], m |-> s.nm[2], dag |-> s.dag,
     beh |-> [i \in DOMAIN rq |-> <<rq[i].name, bh[rq[i].name]>>],
     tagset |-> tg,
     reject |-> Plan(ToScen(s)).reject ] :
       bh \in [DOMAIN s.rules -> GenBeh], tg \in TagChoices(s) }

GenSet == UNION {GenOf(s) : s \in MCScenarios}

ASSUME /\ PrintT(<<"GEN", Cardinality(GenSet)>>)
       /\ ndJsonSerialize("gen.ndjson", SetToSeq(GenSet))

VARIABLE dummy
GInit == dummy = 0 /\ Init
GNext == UNCHANGED <<vars, dummy>>
GSpec == GInit /\ [][GNext]_<<vars, dummy>>
=============================================================================
