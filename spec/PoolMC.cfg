SPECIFICATION MCSpec
CHECK_DEADLOCK FALSE
CONSTANTS
  None = 0
  Reqs = {1, 2, 3}
  MCMin = 1
  MCMax = 2
  Pinned = TRUE
  MCUpdates = 2
  MCStages = 2
INVARIANTS Conservation OneHolder AtMostMax OwnKeysOnly OneVersion AgreeWhenIdle
