------------------------------- MODULE ConcGen -------------------------------
(* Scenario generator for Conc: every body shape within the bound. *)
EXTENDS ConcMC, Json, SequencesExt
ASSUME ndJsonSerialize("gen.ndjson", SetToSeq({[blocks |-> bs] : bs \in CScenarios}))
=============================================================================
