------------------------------- MODULE Compile -------------------------------
(***************************************************************************)
(* C10: compiling is total, all-or-nothing and identical across the five   *)
(* entry points                                                            *)
(*   builder_full  RuleBuilder.BuildRuleFromString                         *)
(*   builder_incr  RuleBuilder.BuildRuleWithIncremental                    *)
(*   pool_new      NewGenginePool                                          *)
(*   pool_full     GenginePool.UpdatePooledRules                           *)
(*   pool_incr     GenginePool.UpdatePooledRulesIncremental                *)
(* One text is submitted to every entry point, each time from the same     *)
(* known installed set `base`.  Whether a text is acceptable is ONE        *)
(* unknown per text, fixed by the first entry point that sees it (for      *)
(* texts built by the generator the class fixes it: "valid" must be        *)
(* accepted, "dup" (a rule name defined twice) and "blank" rejected).      *)
(* What an accepted text denotes is likewise fixed by the first accepting  *)
(* entry point (or declared by the generator).                             *)
(***************************************************************************)
EXTENDS Integers, Sequences, FiniteSets, TLC

VARIABLES cbase,    \* installed before every submission: [name -> [sal, desc]]
          cclass,   \* "valid" | "dup" | "blank" | "other"
          cacc,     \* "unknown" | "yes" | "no"
          cden,     \* denotation of the text once known: [name -> [sal, desc]]
          cdk       \* cden is known
cmvars == <<cbase, cclass, cacc, cden, cdk>>

FullEPs == {"builder_full", "pool_new", "pool_full"}
IncrEPs == {"builder_incr", "pool_incr"}
EPs == FullEPs \cup IncrEPs

AsF(list) == [x \in {list[i].name : i \in DOMAIN list} |->
                LET r == list[CHOOSE i \in DOMAIN list : list[i].name = x]
                IN [sal |-> r.sal, desc |-> r.desc]]

CmBeginCore(class, base, declared) ==
  /\ cclass' = class /\ cbase' = AsF(base) /\ cacc' = "unknown"
  /\ cden' = IF class = "valid" THEN AsF(declared) ELSE <<>>
  /\ cdk' = (class = "valid")

\* ep returned (no panic); ok = it reported success; nopool = the constructor
\* handed back no pool; post = the installed set observed afterwards
\* B = what is installed at the moment of the submission: cbase, or nothing when the pool was cleared before
\* runOK = a sort-model run afterwards showed exactly the expected rules, each once, with their bodies, in
\*         non-increasing order of their saliences (expected: B after a rejection; after a success what the generator
\*         declared - where it declared something - replaced or merged as requested)
CmSubmitCoreB(ep, ok, nopool, post, runOK, B) ==
  /\ ep \in EPs
  /\ cclass = "valid" => ok
  /\ cclass \in {"dup", "blank"} => ~ok
  /\ cacc = "unknown" \/ ok = (cacc = "yes")
  /\ cacc' = IF ok THEN "yes" ELSE "no"
  /\ IF ~ok
     THEN /\ IF ep = "pool_new" THEN nopool
             ELSE /\ ~nopool
                  /\ AsF(post) = B              \* names, saliences, descriptions unchanged
                  /\ runOK                      \* bodies and order unchanged (observed by running)
          /\ cden' = cden /\ cdk' = cdk
     ELSE /\ ~nopool
          /\ LET D == IF cdk THEN cden ELSE AsF(post) IN
             /\ ~cdk => ep = "builder_full"      \* the driver submits there first
             /\ cden' = D /\ cdk' = TRUE
             /\ IF ep \in FullEPs THEN AsF(post) = D ELSE AsF(post) = D @@ B
             /\ runOK
  /\ UNCHANGED <<cbase, cclass>>
CmSubmitCore(ep, ok, nopool, post, runOK) == CmSubmitCoreB(ep, ok, nopool, post, runOK, cbase)

-----------------------------------------------------------------------------
(* Model: what the five entry points may do with one text *)
CONSTANTS CmNames, CmSal
CmSets == UNION {[S -> [sal : CmSal, desc : {"d"}]] : S \in SUBSET CmNames}
CmInit == cbase \in (CmSets \ {<<>>}) /\ cclass \in {"valid", "dup", "blank", "other"}
          /\ cacc = "unknown" /\ cden \in (IF cclass = "valid" THEN CmSets \ {<<>>} ELSE {<<>>})
          /\ cdk = (cclass = "valid")
ToList(f) == LET RECURSIVE L(_) L(S) == IF S = {} THEN <<>> ELSE LET x == CHOOSE y \in S : TRUE IN
                 <<[name |-> x, sal |-> f[x].sal, desc |-> f[x].desc]>> \o L(S \ {x}) IN L(DOMAIN f)
CmNext == \E ep \in EPs, ok \in BOOLEAN, np \in BOOLEAN, p \in CmSets :
             CmSubmitCore(ep, ok, np, ToList(p), TRUE)
CmSpec == CmInit /\ [][CmNext]_cmvars
\* the statement as invariants of the model
Agreement == cacc \in {"unknown", "yes", "no"}
ClassRespected == (cclass = "valid" => cacc # "no") /\ (cclass \in {"dup", "blank"} => cacc # "yes")
=============================================================================
