-------------------------------- MODULE ExecMC --------------------------------
(* Constant definitions for the model-checking and generation configurations *)
(* of Exec (TLC configuration files cannot hold negative numbers or tuples). *)
EXTENDS Exec

Sal3 == {-1, 0, 1}
Sal2 == {0, 1}
Sal1 == {0}
Names2 == {"r1", "r2"}
Names3 == {"r1", "r2", "r3"}
Names4 == {"r1", "r2", "r3", "r4"}
Unk == {"zz"}
NoDag == {<<>>}
NoNM == {<<0, 0>>}

SortMethods == {"Execute", "ExecuteSelectedRules", "ExecuteSelectedRulesWithControl"}
MixFamMethods == {"ExecuteConcurrent", "ExecuteMixModel", "ExecuteInverseMixModel"}
NMMethods == PlainNM
SelMethods == SelectedMethods \ TagMethods
SelNMMethods == SelectedNM
TagFamMethods == TagMethods
DagMethods == {"ExecuteDAGModel"}

NM3 == {<<n, m>> : n \in 0..3, m \in 0..3} \cup {<<-1, 1>>, <<1, -1>>, <<2, 3>>}
NMq == {<<1, 1>>, <<1, 2>>, <<2, 1>>, <<0, 1>>, <<2, 2>>, <<1, 0>>}
NMs == {<<1, 1>>, <<1, 2>>, <<2, 1>>, <<0, 2>>}
NM11 == {<<1, 1>>}
NM4 == {<<n, m>> : n \in 0..4, m \in 0..4} \cup {<<-1, 1>>, <<1, -1>>}

Layer(S, w) == UNION {[1..i -> S] : i \in 0..w}
Dags(S, nl, w) == UNION {[1..i -> Layer(S, w)] : i \in 0..nl}
Dags32 == Dags({"r1", "r2", "zz"}, 3, 2)
Dags22 == Dags({"r1", "r2", "zz"}, 2, 2)
Dags23 == Dags({"r1", "r2", "r3", "zz"}, 2, 2)
Dags31 == Dags({"r1", "r2", "zz"}, 3, 1) \cup Dags22
Beh3 == {"ok", "ret", "fail"}
Beh2 == {"ok", "fail"}
Beh1 == {"ok"}
BehF == {"ok", "fault"}
BehF3 == {"ok", "ret", "fault"}
=============================================================================
