SPECIFICATION TraceSpec
CONSTRAINT Mark
POSTCONDITION TraceAccepted
CHECK_DEADLOCK FALSE
CONSTANTS
  RSNames = {}
  RSSal = {}
  RSMaxOps = 0
