---------------------------- MODULE RuleSetTrace ----------------------------
(* Trace specification for RuleSet (events recorded by harness/cmd/rsdrv). *)
EXTENDS RuleSet, Json

VARIABLE l
Trace == ndJsonDeserialize("trace.ndjson")
Ev == Trace[l]
IsEvent(e) == l <= Len(Trace) /\ Trace[l].ev = e /\ l' = l + 1
Max2(a, b) == IF a >= b THEN a ELSE b

TraceInit == RSInit /\ l = 1
TSession == IsEvent("session") /\ ents' = <<>> /\ UNCHANGED rsh
TOp      == IsEvent("rs_op") /\ ~Ev.panic /\ ROpCore(Ev.kind, Ev.rules, Ev.names, Ev.ok) /\ UNCHANGED rsh
TState   == IsEvent("rs_state") /\ RStateCore(Ev.sorted, Ev.keys, Ev.exist, Ev.run, Ev.runerr) /\ UNCHANGED rsh
TraceProper == TSession \/ TOp \/ TState

NextSession(i) ==
  IF \E j \in (i+1)..Len(Trace) : Trace[j].ev = "session"
  THEN CHOOSE j \in (i+1)..Len(Trace) :
         /\ Trace[j].ev = "session"
         /\ \A m \in (i+1)..(j-1) : Trace[m].ev # "session"
  ELSE Len(Trace) + 1
TraceSkip ==
  /\ l <= Len(Trace)
  /\ ~ENABLED TraceProper
  /\ TLCSet(2, Append(TLCGet(2), l))
  /\ l' = NextSession(l)
  /\ ents' = <<>> /\ UNCHANGED rsh
TraceNext == TraceProper \/ TraceSkip
TraceSpec == TraceInit /\ [][TraceNext]_<<rsvars, l>>
Mark == TLCSet(1, Max2(TLCGet(1), l))
ASSUME TLCSet(1, 1) /\ TLCSet(2, <<>>)
TraceAccepted ==
  /\ JsonSerialize("result.json", [hwm |-> TLCGet(1), len |-> Len(Trace), rej |-> TLCGet(2)])
  /\ TLCGet(1) = Len(Trace) + 1
=============================================================================
