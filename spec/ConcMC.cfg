SPECIFICATION CSpec
CHECK_DEADLOCK FALSE
CONSTANTS
  CKinds <- Kinds2
  CMaxChildren = 3
  CMaxBlocks = 2
INVARIANTS JoinBarrier OnceEach NextBlockAfter FailAfterAll NoAfterOnFailure CanFinish
