------------------------------ MODULE ConcTrace ------------------------------
(* Trace specification for Conc (events recorded by harness/cmd/bodydrv). *)
EXTENDS Conc, Json

VARIABLE l
Trace == ndJsonDeserialize("trace.ndjson")
Ev == Trace[l]
IsEvent(e) == l <= Len(Trace) /\ Trace[l].ev = e /\ l' = l + 1
Max2(a, b) == IF a >= b THEN a ELSE b

TraceInit == CInit /\ l = 1

TSession == /\ IsEvent("session") /\ cphase \in {"idle", "returned"}
            /\ cphase' = "idle" /\ UNCHANGED <<blocks, bi, cst, quiet, dups, ch>>
TBegin   == IsEvent("cbegin") /\ CBeginCore(Ev.blocks, {Ev.quiet[i] : i \in DOMAIN Ev.quiet}, Ev.dups) /\ UNCHANGED ch
TStart   == IsEvent("cstart") /\ CStartCore(Ev.c) /\ UNCHANGED ch
TEnd     == IsEvent("cend") /\ CEndCore(Ev.c, Ev.out) /\ UNCHANGED ch
TAfter   == IsEvent("after") /\ CAfterCore(Ev.b, Ev.bumps) /\ UNCHANGED ch
TSee     == IsEvent("see") /\ CSeeCore(Ev.c, Ev.val) /\ UNCHANGED ch
TReturn  == IsEvent("creturn") /\ ~Ev.panic /\ CReturnCore(Ev.err) /\ UNCHANGED ch

TraceProper == TSession \/ TBegin \/ TStart \/ TEnd \/ TAfter \/ TSee \/ TReturn

NextSession(i) ==
  IF \E j \in (i+1)..Len(Trace) : Trace[j].ev = "session"
  THEN CHOOSE j \in (i+1)..Len(Trace) :
         /\ Trace[j].ev = "session"
         /\ \A m \in (i+1)..(j-1) : Trace[m].ev # "session"
  ELSE Len(Trace) + 1

TraceSkip ==
  /\ l <= Len(Trace)
  /\ ~ENABLED TraceProper
  /\ TLCSet(2, Append(TLCGet(2), l))
  /\ l' = IF Trace[l].ev = "session" THEN l ELSE NextSession(l)
  /\ blocks' = <<>> /\ bi' = 1 /\ cst' = <<>> /\ cphase' = "idle" /\ quiet' = {} /\ dups' = <<>> /\ UNCHANGED ch

TraceNext == TraceProper \/ TraceSkip
TraceSpec == TraceInit /\ [][TraceNext]_<<cvars, l>>

Mark == TLCSet(1, Max2(TLCGet(1), l))
ASSUME TLCSet(1, 1) /\ TLCSet(2, <<>>)
TraceAccepted ==
  /\ JsonSerialize("result.json", [hwm |-> TLCGet(1), len |-> Len(Trace), rej |-> TLCGet(2)])
  /\ TLCGet(1) = Len(Trace) + 1
=============================================================================
