SPECIFICATION LSpec
CHECK_DEADLOCK FALSE
CONSTANTS
  AsFound = TRUE
INVARIANT NoConflict
