SPECIFICATION LSpec
CHECK_DEADLOCK FALSE
CONSTANTS
  AsFound = FALSE
INVARIANT NoConflict
