SPECIFICATION GSpec
CONSTANTS
  GLead = {0, 2}
  GPre = {0, 2}
  GFill = {0, 2}
