SPECIFICATION CmSpec
CHECK_DEADLOCK FALSE
CONSTANTS
  CmNames = {"a", "b"}
  CmSal = {0, 1}
INVARIANTS Agreement ClassRespected
