SPECIFICATION TraceSpec
CONSTRAINT Mark
POSTCONDITION TraceAccepted
CHECK_DEADLOCK FALSE
CONSTANTS
  CKinds = {}
  CMaxChildren = 0
  CMaxBlocks = 0
