----------------------------- MODULE LangExprGen -----------------------------
(***************************************************************************)
(* Shape generator for C01: every operand/operator string with <= GOps     *)
(* binary operators over one representative operator per behaviour         *)
(* (|| && == < + - * /), with one or two parenthesis pairs at every        *)
(* position and with `!` in front of every operand or group, together with *)
(* the tree the reference parser yields; plus the dispatch tables.         *)
(***************************************************************************)
EXTENDS LangExpr, Json, SequencesExt
CONSTANTS GOps

RepOps == {"||", "&&", "==", "<", "+", "-", "*", "/"}
Flats == UNION {{Flat(ops) : ops \in [1..n -> RepOps]} : n \in 0..GOps}

OperandIdx(ts) == {i \in DOMAIN ts : ts[i] \in Slots}
\* "(" before position i, ")" after position j  (i <= j token indices)
Wrap(ts, i, j) == SubSeq(ts, 1, i - 1) \o <<"(">> \o SubSeq(ts, i, j) \o <<")">> \o SubSeq(ts, j + 1, Len(ts))
Single(ts) == UNION {{Wrap(ts, i, j) : j \in {k \in OperandIdx(ts) : k > i}} : i \in OperandIdx(ts)}
\* a second pair around operands of the already parenthesised string (crossing ones do not parse and are dropped)
Double(ts) == UNION {Single(u) : u \in Single(ts)}
NotAt(ts, i) == SubSeq(ts, 1, i - 1) \o <<"!">> \o SubSeq(ts, i, Len(ts))
Nots(ts) == {NotAt(ts, i) : i \in {k \in DOMAIN ts : ts[k] \in Slots \cup {"("}}}

Strings ==
  LET small == {f \in Flats : Len(f) <= 5}
      s1 == UNION {Single(f) : f \in Flats}
      s2 == UNION {Double(f) : f \in small}
      n1 == UNION {Nots(x) : x \in small \cup UNION {Single(f) : f \in small}}
  IN Flats \cup s1 \cup s2 \cup n1

Shapes == {[tokens |-> ts, tree |-> Parse(ts).tree] : ts \in {x \in Strings : Parse(x).ok}}

TableArith == {[op |-> op, a |-> ca, b |-> cb, prim |-> Arith(op, ca, cb)] : op \in ArithOps, ca \in Classes, cb \in Classes}
TableCmp == {[op |-> op, a |-> ca, b |-> cb, prim |-> Cmp(op, ca, cb)] : op \in CmpOps, ca \in Classes, cb \in Classes}
TableLogic == {[op |-> op, a |-> ca, b |-> cb, prim |-> Logic(op, ca, cb)] : op \in LogOps, ca \in Classes, cb \in Classes}
TableNot == {[op |-> "!", a |-> c, b |-> c, prim |-> NotP(c)] : c \in Classes}

ASSUME /\ ndJsonSerialize("gen.ndjson", SetToSeq(Shapes))
       /\ ndJsonSerialize("tables.ndjson", SetToSeq(TableArith \cup TableCmp \cup TableLogic \cup TableNot))
VARIABLE dummy
GSpec == dummy = 0 /\ [][UNCHANGED dummy]_dummy
=============================================================================
