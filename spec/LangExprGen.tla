----------------------------- MODULE LangExprGen -----------------------------
(***************************************************************************)
(* Shape generator for C01: every operand/operator string with <= GOps     *)
(* binary operators over one representative operator per behaviour         *)
(* (|| && == < + - * /), with one or two parenthesis pairs at every        *)
(* position and with `!` in front of every operand or group, together with *)
(* the tree the reference parser yields; plus the dispatch tables.         *)
(***************************************************************************)
EXTENDS LangExpr, Json, SequencesExt
CONSTANTS GOps

RepOps == {"||", "&&", "==", "<", "+", "-", "*", "/"}
Flats == UNION {{Flat(ops) : ops \in [1..n -> RepOps]} : n \in 0..GOps}

OperandIdx(ts) == {i \in DOMAIN ts : ts[i] \in Slots}
\* "(" before position i, ")" after position j  (i <= j token indices)
Wrap(ts, i, j) == SubSeq(ts, 1, i - 1) \o <<"(">> \o SubSeq(ts, i, j) \o <<")">> \o SubSeq(ts, j + 1, Len(ts))
Single(ts) == UNION {{Wrap(ts, i, j) : j \in {k \in OperandIdx(ts) : k > i}} : i \in OperandIdx(ts)}
\* a second pair around operands of the already parenthesised string (crossing ones do not parse and are dropped)
Double(ts) == UNION {Single(u) : u \in Single(ts)}
StartIdx(ts) == {i \in DOMAIN ts : ts[i] \in Slots \cup {"!", "("}}
EndIdx(ts) == {j \in DOMAIN ts : ts[j] \in Slots \cup {")"}}
WrapAny(ts) == UNION {{Wrap(ts, i, j) : j \in {k \in EndIdx(ts) : k >= i}} : i \in StartIdx(ts)}
NotAt(ts, i) == SubSeq(ts, 1, i - 1) \o <<"!">> \o SubSeq(ts, i, Len(ts))
Nots(ts) == {NotAt(ts, i) : i \in {k \in DOMAIN ts : ts[k] \in Slots \cup {"("}}}

Strings ==
  LET small == {f \in Flats : Len(f) <= 5}
      s1 == UNION {Single(f) : f \in Flats}
      s2 == UNION {Double(f) : f \in small}
      n1 == UNION {Nots(x) : x \in small \cup UNION {Single(f) : f \in small}}
      \* a second `!`: negations nested directly inside a negated bracket, `!(!a)`, `!((!a) && b)`, `!(!(a < b))`
      n2 == UNION {Nots(x) : x \in {y \in n1 : Len(y) <= 8}}
      \* brackets that start at a `!` or a `(` and may hold a single operand: `(a)`, `(!a)`, `!(!a)`, `!(!(a < b))`, `!((!a))`
      tiny == {f \in Flats : Len(f) <= 3} \cup {y \in n1 : Len(y) <= 6}
      w1 == UNION {WrapAny(x) : x \in tiny}
      w2 == UNION {WrapAny(x) : x \in {y \in w1 : Len(y) <= 6}}
      n3 == UNION {Nots(x) : x \in w1 \cup w2}
      n4 == UNION {Nots(x) : x \in {y \in n3 : Len(y) <= 8}}
  IN Flats \cup s1 \cup s2 \cup n1 \cup n2 \cup w1 \cup w2 \cup n3 \cup n4

Shapes == {[tokens |-> ts, tree |-> Parse(ts).tree] : ts \in {x \in Strings : Parse(x).ok}}

TableArith == {[op |-> op, a |-> ca, b |-> cb, prim |-> Arith(op, ca, cb)] : op \in ArithOps, ca \in Classes, cb \in Classes}
TableCmp == {[op |-> op, a |-> ca, b |-> cb, prim |-> Cmp(op, ca, cb)] : op \in CmpOps, ca \in Classes, cb \in Classes}
TableLogic == {[op |-> op, a |-> ca, b |-> cb, prim |-> Logic(op, ca, cb)] : op \in LogOps, ca \in Classes, cb \in Classes}
TableNot == {[op |-> "!", a |-> c, b |-> c, prim |-> NotP(c)] : c \in Classes}

ASSUME /\ ndJsonSerialize("gen.ndjson", SetToSeq(Shapes))
       /\ ndJsonSerialize("tables.ndjson", SetToSeq(TableArith \cup TableCmp \cup TableLogic \cup TableNot))
VARIABLE dummy
GSpec == dummy = 0 /\ [][UNCHANGED dummy]_dummy
=============================================================================
