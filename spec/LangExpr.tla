------------------------------ MODULE LangExpr ------------------------------
(***************************************************************************)
(* C01: the expression language.                                           *)
(*                                                                         *)
(* Structure: token strings are parsed by precedence climbing, written     *)
(* from the statement:  * /  bind tighter than  + - , arithmetic tighter   *)
(* than comparison, comparison tighter than && and || (one level), every   *)
(* binary operator associates to the left, parentheses override, ! applies *)
(* to an atom or a parenthesised expression.                               *)
(*                                                                         *)
(* Dispatch: for every operator and pair of operand classes the primitive  *)
(* that computes the result (or "err").  The primitives themselves are     *)
(* 64-bit machine operations supplied by the conformance driver (TLC has   *)
(* 32-bit integers and no floats); the tables are exported from here.      *)
(***************************************************************************)
EXTENDS Integers, Sequences, FiniteSets, TLC

Slots == {"a", "b", "c", "d", "e"}
ArithOps == {"+", "-", "*", "/"}
CmpOps == {"==", "!=", "<", "<=", ">", ">="}
LogOps == {"&&", "||"}
BinOps == ArithOps \cup CmpOps \cup LogOps

Level(op) == CASE op \in LogOps -> 1 [] op \in CmpOps -> 2 [] op \in {"+", "-"} -> 3 [] op \in {"*", "/"} -> 4

Leaf(s) == [k |-> "slot", n |-> s]
Bin(op, l, r) == [k |-> "bin", op |-> op, l |-> l, r |-> r]
Par(e) == [k |-> "par", e |-> e]
Not(e) == [k |-> "not", e |-> e]

Fail == [ok |-> FALSE, tree |-> Leaf("a"), rest |-> <<>>]
Res(t, r) == [ok |-> TRUE, tree |-> t, rest |-> r]

RECURSIVE PExpr(_, _), PClimb(_, _, _), PUnary(_), PPrimary(_)

PPrimary(ts) ==
  IF ts = <<>> THEN Fail
  ELSE IF Head(ts) \in Slots THEN Res(Leaf(Head(ts)), Tail(ts))
  ELSE IF Head(ts) = "(" THEN
       LET r == PExpr(Tail(ts), 1) IN
       IF r.ok /\ r.rest # <<>> /\ Head(r.rest) = ")" THEN Res(Par(r.tree), Tail(r.rest)) ELSE Fail
  ELSE Fail

PUnary(ts) ==
  IF ts # <<>> /\ Head(ts) = "!" THEN
       LET r == PPrimary(Tail(ts)) IN IF r.ok THEN Res(Not(r.tree), r.rest) ELSE Fail
  ELSE PPrimary(ts)

\* lhs parsed so far; absorb operators of level >= minLevel, left-associatively
PClimb(lhs, ts, minLevel) ==
  IF ts = <<>> \/ Head(ts) \notin BinOps THEN Res(lhs, ts)
  ELSE LET op == Head(ts) IN
       IF Level(op) < minLevel THEN Res(lhs, ts)
       ELSE LET r == PExpr(Tail(ts), Level(op) + 1) IN
            IF ~r.ok THEN Fail ELSE PClimb(Bin(op, lhs, r.tree), r.rest, minLevel)

PExpr(ts, minLevel) ==
  LET u == PUnary(ts) IN IF ~u.ok THEN Fail ELSE PClimb(u.tree, u.rest, minLevel)

Parse(ts) == LET r == PExpr(ts, 1) IN IF r.ok /\ r.rest = <<>> THEN r ELSE Fail

\* printing: explicit parentheses are kept (Par nodes), nothing is added
RECURSIVE Unparse(_)
Unparse(t) ==
  CASE t.k = "slot" -> <<t.n>>
    [] t.k = "par" -> <<"(">> \o Unparse(t.e) \o <<")">>
    [] t.k = "not" -> <<"!">> \o Unparse(t.e)
    [] t.k = "bin" -> Unparse(t.l) \o <<t.op>> \o Unparse(t.r)

-----------------------------------------------------------------------------
(* Dispatch tables over operand classes *)
Classes == {"int", "uint", "float", "str", "bool"}
Num == {"int", "uint", "float"}

Arith(op, ca, cb) ==
  IF ca \in Num /\ cb \in Num THEN
       IF "float" \in {ca, cb} THEN "f64"              \* a float operand promotes to float64
       ELSE IF ca = "int" /\ cb = "int" THEN "i64"      \* 64-bit wrapping, truncating division
       ELSE IF ca = "uint" /\ cb = "uint" THEN "u64"
       ELSE "mixed64"                                   \* int with uint: 64-bit pattern, class left open
  ELSE IF op = "+" /\ ca = "str" /\ cb = "str" THEN "concat"
  ELSE "err"

Cmp(op, ca, cb) ==
  IF ca \in Num /\ cb \in Num THEN
       IF "float" \in {ca, cb} THEN "cmp_f64" ELSE "cmp_exact"   \* integers: exact over the whole 64-bit range
  ELSE IF ca = "str" /\ cb = "str" THEN "cmp_str"
  ELSE IF ca = "bool" /\ cb = "bool" /\ op \in {"==", "!="} THEN "cmp_bool"
  ELSE "err"

Logic(op, ca, cb) == IF ca = "bool" /\ cb = "bool" THEN "logic" ELSE "err"
NotP(c) == IF c = "bool" THEN "not" ELSE "err"

ResultClass(p, ca, cb) ==
  CASE p = "f64" -> "float" [] p = "i64" -> "int" [] p = "u64" -> "uint" [] p = "mixed64" -> "intlike"
    [] p = "concat" -> "str" [] p \in {"cmp_f64", "cmp_exact", "cmp_str", "cmp_bool", "logic", "not"} -> "bool"
    [] OTHER -> "err"

-----------------------------------------------------------------------------
(* Meta-properties, checked by TLC on every tree with <= MaxOps operators *)
CONSTANTS MaxOps

OpSeqs(n) == [1..n -> BinOps]

\* operand/operator strings without parentheses:  a op1 b op2 c ...
Flat(ops) == LET names == <<"a", "b", "c", "d", "e">> IN
             [i \in 1..(2 * Len(ops) + 1) |-> IF i % 2 = 1 THEN names[(i + 1) \div 2] ELSE ops[i \div 2]]

RECURSIVE NOps(_)
NOps(t) == CASE t.k = "slot" -> 0 [] t.k \in {"par", "not"} -> NOps(t.e) [] t.k = "bin" -> 1 + NOps(t.l) + NOps(t.r)

\* In a tree parsed from a parenthesis-free string: the right operand of a node
\* never contains an operator of the same or a lower level (left associativity
\* and precedence), and a left operand never contains a lower level.
RECURSIVE WellShaped(_), MinLevel(_)
MinLevel(t) == IF t.k = "bin" THEN LET a == MinLevel(t.l) b == MinLevel(t.r) m == IF a < b THEN a ELSE b
                                   IN IF Level(t.op) < m THEN Level(t.op) ELSE m
               ELSE 9
WellShaped(t) ==
  IF t.k # "bin" THEN TRUE
  ELSE /\ MinLevel(t.r) > Level(t.op)
       /\ MinLevel(t.l) >= Level(t.op)
       /\ WellShaped(t.l) /\ WellShaped(t.r)

FlatProps ==
  \A n \in 0..MaxOps : \A ops \in OpSeqs(n) :
     LET ts == Flat(ops)
         r == Parse(ts) IN
     /\ r.ok
     /\ Unparse(r.tree) = ts                 \* the parse loses nothing
     /\ NOps(r.tree) = n
     /\ WellShaped(r.tree)
     \* a - b - c is (a - b) - c: with equal levels the tree is a left spine
     /\ (n >= 2 /\ \A i \in 1..n : Level(ops[i]) = Level(ops[1])) =>
            (r.tree.k = "bin" /\ r.tree.r.k = "slot" /\ r.tree.l.k = "bin")

ASSUME FlatProps
=============================================================================
