------------------------------ MODULE LangData ------------------------------
(***************************************************************************)
(* C03: injected data is read, written and called faithfully.              *)
(*                                                                         *)
(* The matrix of access-path forms x target kinds x source classes with    *)
(* the outcome the statement promises:                                     *)
(*   "conv"        the assigned value arrives in the target, converted to  *)
(*                 the target's kind (the driver only draws values that    *)
(*                 are representable there), everything else untouched     *)
(*   "unspecified" the statement makes no promise (cross-class stores into *)
(*                 containers, kind mismatches): only containment matters  *)
(* and likewise for call arguments.                                        *)
(***************************************************************************)
EXTENDS Integers, Sequences, FiniteSets, TLC, Json, SequencesExt

IntKinds == {"int8", "int16", "int32", "int64", "int"}
UintKinds == {"uint8", "uint16", "uint32", "uint64", "uint"}
FloatKinds == {"float32", "float64"}
NumKinds == IntKinds \cup UintKinds \cup FloatKinds
Kinds == NumKinds \cup {"string", "bool"}
ClassOf(k) == CASE k \in IntKinds -> "int" [] k \in UintKinds -> "uint" [] k \in FloatKinds -> "float"
                [] k = "string" -> "str" [] k = "bool" -> "bool"

\* where a value can be stored
FieldPaths == {"field", "field2", "field2v"}      \* obj.F, obj.In.F (In a pointer), obj.Inv.F (Inv a struct held by value)
PtrPaths == {"ptr"}                               \* pointer-injected scalar:  p = v
ContainerPaths == {"mapstr", "mapint", "mapvar", "mapintvar", "slice", "slicevar", "array", "fieldmap", "fieldslice",
                   \* the same containers injected by pointer (&m, &s)
                   "pmapstr", "pmapint", "pmapvar", "pmapintvar", "pslice", "pslicevar"}
MapPaths == {"mapstr", "mapint", "mapvar", "mapintvar", "pmapstr", "pmapint", "pmapvar", "pmapintvar", "fieldmap"}
Paths == FieldPaths \cup PtrPaths \cup ContainerPaths

\* what is assigned: the class and width of the source value
Sources == {"int64", "int8", "uint64", "uint8", "float64", "float32", "string", "bool"}

StoreOutcome(path, kind, src) ==
  LET tc == ClassOf(kind)
      sc == ClassOf(src) IN
  IF tc \in {"str", "bool"} \/ sc \in {"str", "bool"} THEN (IF tc = sc THEN "conv" ELSE "unspecified")
  ELSE IF tc = sc THEN "conv"                                   \* same numeric class: any width
  ELSE IF path \in FieldPaths \cup PtrPaths THEN "conv"         \* fields and pointer scalars: across classes
  ELSE "unspecified"                                            \* containers: same class only

\* arguments are converted to the declared numeric parameter type across classes
ArgOutcome(kind, src) ==
  LET tc == ClassOf(kind)
      sc == ClassOf(src) IN
  IF tc \in {"str", "bool"} \/ sc \in {"str", "bool"} THEN (IF tc = sc THEN "conv" ELSE "unspecified")
  ELSE "conv"

CallForms == {"func", "method", "three", "func2", "funcerr", "funcrev",   \* funcrev: the converted parameter stands BEHIND a string parameter and before an integer one   \* funcerr: (value, error) with a non-nil error: the first result counts      \* func2: a function with two results (the first counts)
              "vthenp"}     \* a value-receiver method called on a value-injected object and then on a pointer-injected
                            \* object of the same type (whose method set also holds pointer-receiver methods)

StoreCells == {[what |-> "store", path |-> p, kind |-> k, src |-> s, outcome |-> StoreOutcome(p, k, s)] :
                 p \in Paths, k \in Kinds, s \in Sources}
ReadCells == {[what |-> "read", path |-> p, kind |-> k, src |-> "", outcome |-> "conv"] : p \in Paths, k \in Kinds}
             \cup {[what |-> "readmissing", path |-> p, kind |-> k, src |-> "", outcome |-> "conv"] :
                     p \in MapPaths, k \in Kinds}
CallCells == {[what |-> "call", path |-> f, kind |-> k, src |-> s, outcome |-> ArgOutcome(k, s)] :
                f \in CallForms, k \in Kinds, s \in Sources}
ShadowCells == {[what |-> "shadow", path |-> p, kind |-> k, src |-> "int64", outcome |-> "conv"] :
                  \* late: the name is injected (by a function the rule calls) AFTER the rule assigned a local of that name
                  p \in {"ptr", "value", "late"}, k \in {"int64", "int8", "float64"}}

\* a read always yields the CURRENT Go value: after the host (or an injected function called by the rule) changed the data
\* in place or replaced a pointer on the access path, the same rule on the same data context reads the new value
RereadCells == {[what |-> "reread", path |-> p, kind |-> k, src |-> how, outcome |-> "conv"] :
                  p \in {"field", "field2", "field2v", "mapstr", "slice", "array", "pmapstr", "pslice"}, k \in {"int64", "int8", "float64", "string"},
                  how \in {"value", "pointer", "inrule"}}

\* a field access goes by the field's NAME on the object's own type: two struct types that print alike (same package
\* and type name, e.g. declared inside two functions) with the same field names at different positions - injected one
\* after the other in one process - each read and written through their own layout
TwinCells == {[what |-> "twin", path |-> p, kind |-> k, src |-> "", outcome |-> "conv"] :
                p \in {"read", "store"}, k \in {"int64", "string"}}

\* sanity: every same-kind store is promised
Sane == \A c \in StoreCells : (ClassOf(c.kind) = ClassOf(c.src)) => c.outcome = "conv"
ASSUME Sane
ASSUME ndJsonSerialize("gen.ndjson", SetToSeq(StoreCells \cup ReadCells \cup CallCells \cup ShadowCells \cup RereadCells \cup TwinCells))
VARIABLE dummy
GSpec == dummy = 0 /\ [][UNCHANGED dummy]_dummy
=============================================================================
