SPECIFICATION TraceSpec
CONSTRAINT Mark
POSTCONDITION TraceAccepted
CHECK_DEADLOCK FALSE
