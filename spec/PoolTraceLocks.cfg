SPECIFICATION TraceSpec
CONSTRAINT Mark
POSTCONDITION TraceAccepted
CHECK_DEADLOCK FALSE
CONSTANTS
  None = 0
  CheckLocks = TRUE
