SPECIFICATION GSpec
