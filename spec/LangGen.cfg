SPECIFICATION GSpec
CONSTANTS
  GLen = 2
  GInner = 2
