-------------------------------- MODULE Lang --------------------------------
(***************************************************************************)
(* Reference semantics of the statement language of a rule body (C02),     *)
(* big-step, over abstract syntax trees given as records:                   *)
(*                                                                         *)
(* expressions                                                             *)
(*   [k |-> "int"|"bool"|"str", v]          literal                        *)
(*   [k |-> "var", n]                       rule local                     *)
(*   [k |-> "fld", n]                       injected struct field obj.n    *)
(*   [k |-> "key", n]                       injected map entry m["n"]      *)
(*   [k |-> "idx", i]                       injected slice element arr[i]  *)
(*   [k |-> "idxv", n]                      arr[n] with a local as index   *)
(*   [k |-> "keyv", n]                      m[n] with a string local as key *)
(*   [k |-> "bin", op, l, r]                + - * / == != < <= > >= && ||  *)
(*   [k |-> "not", e]   [k |-> "par", e]                                   *)
(* statements                                                              *)
(*   [k |-> "asg", t, op, e]     t a var/fld/key/idx target, op = += -= *= /= *)
(*   [k |-> "ev", tag, e]        observer call ev(tag, e)                  *)
(*   [k |-> "if", c, then, elifs, haselse, else]                           *)
(*   [k |-> "for", init, c, step, b]                                       *)
(*   [k |-> "range", v, coll, b]            forRange v := arr              *)
(*   [k |-> "rangem", v, b]                 forRange v := m  (the keys the *)
(*                                          map holds when the loop starts) *)
(*   [k |-> "brk"]  [k |-> "cont"]  [k |-> "ret", has, e]                  *)
(* every node carries its source line in field `line`.                     *)
(*                                                                         *)
(* State: locals (one flat store per execution), host (obj fields, map m,  *)
(* slice arr), trace (the observer calls so far).  Run yields              *)
(*   [flag \in {"none","ret","brk","cont","err"}, val, hasval, st, line]   *)
(* Source order; exactly the first true branch; `for` tests before every   *)
(* iteration and steps after every iteration, also after `continue`;       *)
(* `forRange` visits every index once; break/continue act on the innermost *)
(* loop; return ends the rule from any depth; a local is visible from its  *)
(* first assignment on, regardless of block nesting.                       *)
(***************************************************************************)
EXTENDS Integers, Sequences, FiniteSets, TLC

MaxIter == 10000      \* the engine's bound on `for` iterations (a fault, C09)

\* values are typed: [t |-> "int"|"bool"|"str", v |-> ...]; host cells hold plain integers
I(n) == [t |-> "int", v |-> n]
B(b) == [t |-> "bool", v |-> b]
S(x) == [t |-> "str", v |-> x]

Ok(v, s) == [ok |-> TRUE, v |-> v, st |-> s, line |-> 0]
Err(s, ln) == [ok |-> FALSE, v |-> I(0), st |-> s, line |-> ln]

IsInt(v) == v.t = "int"
IsBool(v) == v.t = "bool"
IsStr(v) == v.t = "str"

\* truncating division (TLA+'s \div floors)
TDiv(a, b) == LET q == (IF a < 0 THEN -a ELSE a) \div (IF b < 0 THEN -b ELSE b)
              IN IF (a < 0) # (b < 0) THEN -q ELSE q

ArithOps == {"+", "-", "*", "/"}
CmpOps == {"==", "!=", "<", "<=", ">", ">="}
LogOps == {"&&", "||"}

Apply(op, a, b, s, ln) ==
  IF op \in ArithOps THEN
      IF IsInt(a) /\ IsInt(b) THEN
          CASE op = "+" -> Ok(I(a.v + b.v), s)
            [] op = "-" -> Ok(I(a.v - b.v), s)
            [] op = "*" -> Ok(I(a.v * b.v), s)
            [] op = "/" -> IF b.v = 0 THEN Err(s, ln) ELSE Ok(I(TDiv(a.v, b.v)), s)
      ELSE IF op = "+" /\ IsStr(a) /\ IsStr(b) THEN Ok(S(a.v \o b.v), s)
      ELSE Err(s, ln)
  ELSE IF op \in CmpOps THEN
      IF IsInt(a) /\ IsInt(b) THEN
          Ok(B(CASE op = "==" -> a.v = b.v [] op = "!=" -> a.v # b.v [] op = "<" -> a.v < b.v
                 [] op = "<=" -> a.v <= b.v [] op = ">" -> a.v > b.v [] op = ">=" -> a.v >= b.v), s)
      ELSE IF a.t = b.t /\ a.t \in {"bool", "str"} /\ op \in {"==", "!="}
           THEN Ok(B(IF op = "==" THEN a.v = b.v ELSE a.v # b.v), s)
      ELSE Err(s, ln)
  ELSE IF IsBool(a) /\ IsBool(b) THEN Ok(B(IF op = "&&" THEN a.v /\ b.v ELSE a.v \/ b.v), s)
  ELSE Err(s, ln)

RECURSIVE Eval(_, _)
Eval(e, s) ==
  CASE e.k \in {"int", "bool", "str"} -> Ok([t |-> e.k, v |-> e.v], s)
    [] e.k = "var" -> IF e.n \in DOMAIN s.locals THEN Ok(s.locals[e.n], s) ELSE Err(s, e.line)
    [] e.k = "fld" -> Ok(I(s.host.obj[e.n]), s)
    [] e.k = "key" -> Ok(I(IF e.n \in DOMAIN s.host.m THEN s.host.m[e.n] ELSE 0), s)
    [] e.k = "idx" -> IF e.i + 1 \in DOMAIN s.host.arr THEN Ok(I(s.host.arr[e.i + 1]), s) ELSE Err(s, e.line)
    [] e.k = "idxv" -> IF e.n \in DOMAIN s.locals /\ IsInt(s.locals[e.n]) /\ s.locals[e.n].v + 1 \in DOMAIN s.host.arr
                       THEN Ok(I(s.host.arr[s.locals[e.n].v + 1]), s) ELSE Err(s, e.line)
    [] e.k = "keyv" -> IF e.n \in DOMAIN s.locals /\ IsStr(s.locals[e.n])
                       THEN Ok(I(IF s.locals[e.n].v \in DOMAIN s.host.m THEN s.host.m[s.locals[e.n].v] ELSE 0), s)
                       ELSE Err(s, e.line)
    [] e.k = "par" -> Eval(e.e, s)
    [] e.k = "not" -> LET r == Eval(e.e, s) IN
                      IF ~r.ok THEN r ELSE IF IsBool(r.v) THEN Ok(B(~r.v.v), r.st) ELSE Err(r.st, e.line)
    [] e.k = "bin" -> LET a == Eval(e.l, s) IN
                      IF ~a.ok THEN a ELSE
                      LET b == Eval(e.r, a.st) IN      \* both operands are always evaluated
                      IF ~b.ok THEN b ELSE Apply(e.op, a.v, b.v, b.st, e.line)

Store(t, v, s, ln) ==
  CASE t.k = "var" -> Ok(v, [s EXCEPT !.locals = (t.n :> v) @@ @])
    [] t.k = "fld" -> IF IsInt(v) THEN Ok(v, [s EXCEPT !.host.obj = (t.n :> v.v) @@ @]) ELSE Err(s, ln)
    [] t.k = "key" -> IF IsInt(v) THEN Ok(v, [s EXCEPT !.host.m = (t.n :> v.v) @@ @]) ELSE Err(s, ln)
    [] t.k = "idx" -> IF IsInt(v) /\ t.i + 1 \in DOMAIN s.host.arr
                      THEN Ok(v, [s EXCEPT !.host.arr = [@ EXCEPT ![t.i + 1] = v.v]]) ELSE Err(s, ln)
    [] t.k = "idxv" -> IF IsInt(v) /\ t.n \in DOMAIN s.locals /\ IsInt(s.locals[t.n]) /\ s.locals[t.n].v + 1 \in DOMAIN s.host.arr
                       THEN Ok(v, [s EXCEPT !.host.arr = [@ EXCEPT ![s.locals[t.n].v + 1] = v.v]]) ELSE Err(s, ln)

R(flag, val, hasval, s, ln) == [flag |-> flag, val |-> val, hasval |-> hasval, st |-> s, line |-> ln]

Assign(a, s) ==
  LET r == Eval(a.e, s) IN
  IF ~r.ok THEN R("err", I(0), FALSE, r.st, r.line) ELSE
  IF a.op \in {"=", ":="}
  THEN LET w == Store(a.t, r.v, r.st, a.line) IN
       IF w.ok THEN R("none", I(0), FALSE, w.st, 0) ELSE R("err", I(0), FALSE, w.st, w.line)
  ELSE LET old == Eval(a.t, r.st) IN
       IF ~old.ok THEN R("err", I(0), FALSE, old.st, a.line) ELSE
       LET nv == Apply(CASE a.op = "+=" -> "+" [] a.op = "-=" -> "-" [] a.op = "*=" -> "*" [] a.op = "/=" -> "/",
                       old.v, r.v, old.st, a.line) IN
       IF ~nv.ok THEN R("err", I(0), FALSE, nv.st, a.line) ELSE
       LET w == Store(a.t, nv.v, nv.st, a.line) IN
       IF w.ok THEN R("none", I(0), FALSE, w.st, 0) ELSE R("err", I(0), FALSE, w.st, w.line)

RECURSIVE Run(_, _), Stmt(_, _), Loop(_, _, _), Range(_, _, _, _), Elifs(_, _, _), SeqOf(_)
\* some enumeration of a finite set (map iteration order is unspecified: bodies of map loops
\* generated for validation are insensitive to it)
SeqOf(KS) == IF KS = {} THEN <<>> ELSE LET x == CHOOSE y \in KS : TRUE IN <<x>> \o SeqOf(KS \ {x})

\* a statement list
Run(ss, s) ==
  IF ss = <<>> THEN R("none", I(0), FALSE, s, 0)
  ELSE LET r == Stmt(Head(ss), s) IN
       IF r.flag = "none" THEN Run(Tail(ss), r.st) ELSE r

Cond(c, s) ==   \* a condition must be a boolean
  LET r == Eval(c, s) IN
  IF ~r.ok THEN r ELSE IF IsBool(r.v) THEN r ELSE Err(r.st, c.line)

Elifs(es, x, s) ==
  IF es = <<>> THEN (IF x.haselse THEN Run(x.else, s) ELSE R("none", I(0), FALSE, s, 0))
  ELSE LET c == Cond(Head(es).c, s) IN
       IF ~c.ok THEN R("err", I(0), FALSE, c.st, c.line)
       ELSE IF c.v.v THEN Run(Head(es).b, c.st) ELSE Elifs(Tail(es), x, c.st)

\* n = iterations started so far
Loop(x, s, n) ==
  IF n >= MaxIter THEN R("err", I(0), FALSE, s, x.line) ELSE
  LET c == Cond(x.c, s) IN
  IF ~c.ok THEN R("err", I(0), FALSE, c.st, c.line) ELSE
  IF ~c.v.v THEN R("none", I(0), FALSE, c.st, 0) ELSE
  LET b == Run(x.b, c.st) IN
  IF b.flag \in {"err", "ret"} THEN b ELSE
  IF b.flag = "brk" THEN R("none", I(0), FALSE, b.st, 0) ELSE
  LET st == Assign(x.step, b.st) IN            \* also after `continue`
  IF st.flag = "err" THEN st ELSE Loop(x, st.st, n + 1)

\* keys: the indices still to visit
Range(x, keys, s, dummy) ==
  IF keys = <<>> THEN R("none", I(0), FALSE, s, 0) ELSE
  LET s1 == [s EXCEPT !.locals = (x.v :> (IF x.k = "rangem" THEN S(Head(keys)) ELSE I(Head(keys)))) @@ @]
      b == Run(x.b, s1) IN
  IF b.flag \in {"err", "ret"} THEN b ELSE
  IF b.flag = "brk" THEN R("none", I(0), FALSE, b.st, 0) ELSE Range(x, Tail(keys), b.st, dummy)

Stmt(x, s) ==
  CASE x.k = "asg" -> Assign(x, s)
    [] x.k = "ev" -> LET r == Eval(x.e, s) IN
                     IF ~r.ok THEN R("err", I(0), FALSE, r.st, r.line)
                     ELSE R("none", I(0), FALSE, [r.st EXCEPT !.trace = Append(@, <<x.tag, r.v>>)], 0)
    [] x.k = "if" -> LET c == Cond(x.c, s) IN
                     IF ~c.ok THEN R("err", I(0), FALSE, c.st, c.line)
                     ELSE IF c.v.v THEN Run(x.then, c.st) ELSE Elifs(x.elifs, x, c.st)
    [] x.k = "for" -> LET i == Assign(x.init, s) IN
                      IF i.flag = "err" THEN i ELSE Loop(x, i.st, 0)
    \* arr: the injected slice; za, oz.Z: injected fixed-size arrays of three elements (whatever they hold)
    [] x.k = "range" -> Range(x, IF x.coll = "arr" THEN [j \in 1..Len(s.host.arr) |-> j - 1] ELSE <<0, 1, 2>>, s, 0)
    [] x.k = "rangem" -> Range(x, SeqOf(DOMAIN s.host.m), s, 0)       \* a snapshot of the keys at loop entry
    [] x.k = "brk" -> R("brk", I(0), FALSE, s, x.line)
    [] x.k = "cont" -> R("cont", I(0), FALSE, s, x.line)
    [] x.k = "ret" -> IF ~x.has THEN R("ret", I(0), FALSE, s, 0)
                      ELSE LET r == Eval(x.e, s) IN
                           IF ~r.ok THEN R("err", I(0), FALSE, r.st, r.line) ELSE R("ret", r.v, TRUE, r.st, 0)

\* what the host program observes of one execution of a rule body
Observe(prog, host0) ==
  LET r == Run(prog, [locals |-> <<>>, host |-> host0, trace |-> <<>>]) IN
  [trace |-> r.st.trace,
   err |-> r.flag \in {"err", "brk", "cont"},      \* break/continue outside a loop fail the rule
   returned |-> r.flag = "ret",
   hasval |-> r.flag = "ret" /\ r.hasval,
   val |-> IF r.flag = "ret" /\ r.hasval THEN r.val ELSE I(0),
   host |-> r.st.host]
=============================================================================
