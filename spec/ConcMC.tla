------------------------------- MODULE ConcMC -------------------------------
EXTENDS Conc
Kinds5 == {"asgL", "asgI", "func", "meth", "three"}
Kinds2 == {"asgL", "func"}
Kinds7 == Kinds5 \cup {"methL", "asgML"}
=============================================================================
