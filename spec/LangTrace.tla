------------------------------ MODULE LangTrace ------------------------------
(* One line per executed program: the abstract syntax tree, the initial host *)
(* state and what the host program observed; the line is accepted iff the    *)
(* reference semantics yields exactly that observation.                      *)
EXTENDS Lang, Json
VARIABLE l
Trace == ndJsonDeserialize("trace.ndjson")
Ev == Trace[l]
Max2(a, b) == IF a >= b THEN a ELSE b
TraceInit == l = 1
AsFn(pairs) == [x \in {pairs[i][1] : i \in DOMAIN pairs} |-> pairs[CHOOSE i \in DOMAIN pairs : pairs[i][1] = x][2]]
HostOf(h) == [obj |-> AsFn(h.obj), m |-> AsFn(h.m), arr |-> h.arr]
Matches(e) ==
  LET o == Observe(e.prog, HostOf(e.host0)) IN
  /\ o.err = e.obs.err
  /\ o.trace = e.obs.trace
  /\ o.host = HostOf(e.obs.host)
  /\ ~o.err => /\ o.returned = e.obs.returned
               /\ o.hasval = e.obs.hasval
               /\ o.hasval => o.val = e.obs.val
TSession == l <= Len(Trace) /\ Ev.ev = "session" /\ l' = l + 1
TCase == l <= Len(Trace) /\ Ev.ev = "case" /\ Matches(Ev) /\ l' = l + 1
TraceProper == TSession \/ TCase
TraceSkip == /\ l <= Len(Trace) /\ ~ENABLED TraceProper
             /\ TLCSet(2, Append(TLCGet(2), l)) /\ l' = l + 1
TraceNext == TraceProper \/ TraceSkip
TraceSpec == TraceInit /\ [][TraceNext]_l
Mark == TLCSet(1, Max2(TLCGet(1), l))
ASSUME TLCSet(1, 1) /\ TLCSet(2, <<>>)
TraceAccepted ==
  /\ JsonSerialize("result.json", [hwm |-> TLCGet(1), len |-> Len(Trace), rej |-> TLCGet(2)])
  /\ TLCGet(1) = Len(Trace) + 1
=============================================================================
