------------------------------- MODULE LangGen -------------------------------
(***************************************************************************)
(* Small-scope enumeration of statement trees for the replay direction     *)
(* (specification -> code): every body of <= GLen statements drawn from a  *)
(* tiny alphabet, where the compound statements contain every body of      *)
(* <= GInner simple statements.  Written as ndjson; the driver renders     *)
(* each tree to rule text, runs it and the recorded observation is         *)
(* validated against Lang!Observe like every other case.                   *)
(***************************************************************************)
EXTENDS Lang, Json, SequencesExt
CONSTANTS GLen, GInner

V(n) == [k |-> "var", n |-> n, line |-> 0]
L(i) == [k |-> "int", v |-> i, line |-> 0]
Bn(op, a, b) == [k |-> "bin", op |-> op, l |-> a, r |-> b, line |-> 0]
Asg(t, op, e) == [k |-> "asg", t |-> t, op |-> op, e |-> e, line |-> 0]
Ev(tag, e) == [k |-> "ev", tag |-> tag, e |-> e, line |-> 0]
Brk == [k |-> "brk", line |-> 0]
Cnt == [k |-> "cont", line |-> 0]
Ret(e) == [k |-> "ret", has |-> TRUE, e |-> e, line |-> 0]
If(c, a, b) == [k |-> "if", c |-> c, then |-> a, elifs |-> <<>>, haselse |-> TRUE, else |-> b, line |-> 0]
IfE(c, a, c2, b, d) == [k |-> "if", c |-> c, then |-> a, elifs |-> <<[c |-> c2, b |-> b]>>, haselse |-> TRUE, else |-> d, line |-> 0]
For(n, b) == [k |-> "for", init |-> Asg(V("i"), "=", L(0)), c |-> Bn("<", V("i"), L(n)),
              step |-> Asg(V("i"), "+=", L(1)), b |-> b, line |-> 0]
Rg(b) == [k |-> "range", v |-> "r1", coll |-> "arr", b |-> b, line |-> 0]

Simple == { Asg(V("x"), "+=", L(1)), Asg(V("x"), "*=", L(2)), Ev(1, V("x")), Ev(2, V("i")),
            Asg([k |-> "fld", n |-> "A", line |-> 0], "=", V("x")) }
Ctl == { If(Bn("==", V("i"), L(1)), <<Brk>>, <<>>), If(Bn("==", V("i"), L(0)), <<Cnt>>, <<>>),
         If(Bn(">", V("x"), L(1)), <<Ret(V("x"))>>, <<>>) }
Inner == UNION {[1..n -> Simple \cup Ctl] : n \in 1..GInner}
Compound == {For(3, b) : b \in Inner} \cup {Rg(b) : b \in Inner}
            \cup {If(Bn(">", V("x"), L(0)), b, <<Ev(9, V("x"))>>) : b \in Inner}
            \cup {IfE(Bn(">", V("x"), L(5)), <<Ev(7, L(7))>>, Bn("==", V("x"), L(0)), b, <<Ev(8, L(8))>>) : b \in Inner}
Top == Simple \cup Compound
Seqs == UNION {[1..n -> Top] : n \in 1..GLen}
\* the grammar allows `return` only as the last statement of a block
Bodies == Seqs \cup {b \o <<Ret(V("x"))>> : b \in Seqs}
Prefix == <<Asg(V("x"), "=", L(0)), Asg(V("i"), "=", L(0))>>
ASSUME ndJsonSerialize("gen.ndjson", SetToSeq({[prog |-> Prefix \o b] : b \in Bodies}))
VARIABLE dummy
GSpec == dummy = 0 /\ [][UNCHANGED dummy]_dummy
=============================================================================
