SPECIFICATION GSpec
CONSTANTS
  MaxOps = 2
  GOps = 3
