--------------------------- MODULE LangLinesTrace ---------------------------
(* One line per executed layout of LangLines: what the error message cited. *)
EXTENDS Integers, Sequences, FiniteSets, TLC, Json
VARIABLE l
Trace == ndJsonDeserialize("trace.ndjson")
Ev == Trace[l]
Max2(a, b) == IF a >= b THEN a ELSE b
Rng(s) == {s[i] : i \in DOMAIN s}
\* the faulty rule fails; every cited line is the line of the failing construct (or of the
\* statement that wraps its message); the classes that always cite a position cite the construct's line
Conforms(e) ==
  /\ e.err /\ ~e.panic
  /\ Rng(e.cited) \subseteq {e.fault, e.stmt}
  /\ e.always => e.fault \in Rng(e.cited)
TSession == l <= Len(Trace) /\ Ev.ev = "session" /\ l' = l + 1
TCase == l <= Len(Trace) /\ Ev.ev = "lcase" /\ Conforms(Ev) /\ l' = l + 1
TSkip == l <= Len(Trace) /\ Ev.ev = "lskip" /\ l' = l + 1       \* the layout is not in gengine's grammar
TraceProper == TSession \/ TCase \/ TSkip
TraceSkip == /\ l <= Len(Trace) /\ ~ENABLED TraceProper
             /\ TLCSet(2, Append(TLCGet(2), l)) /\ l' = l + 1
TraceNext == TraceProper \/ TraceSkip
TraceSpec == l = 1 /\ [][TraceNext]_l
Mark == TLCSet(1, Max2(TLCGet(1), l))
ASSUME TLCSet(1, 1) /\ TLCSet(2, <<>>)
TraceAccepted ==
  /\ JsonSerialize("result.json", [hwm |-> TLCGet(1), len |-> Len(Trace), rej |-> TLCGet(2)])
  /\ TLCGet(1) = Len(Trace) + 1
=============================================================================
