------------------------------- MODULE Locals -------------------------------
(***************************************************************************)
(* C15: a rule's local variables belong to one execution of that rule.     *)
(* Every rule is a straight-line program of operations                     *)
(*   W x  (assign a fresh value to local x)      R x  (read local x)       *)
(*   FR x (x is bound as the key variable of a forRange over injected      *)
(*        data: a local defined without an assignment statement)           *)
(*   H    (hold: block on a gate)            T  (set the call's stop tag)  *)
(*   WF x a (x is bound from the injected field a - an addressable scalar;  *)
(*        the value is whatever the field holds at that moment)            *)
(*   WM x / RM x (x is bound to a fresh object; a METHOD of the object in  *)
(*        x is called and tells which object it ran on)                    *)
(*   WN x / RN x (x is bound to a fresh FUNCTION value - a closure; the rule *)
(*        calls the function held in x and the closure tells which one ran) *)
(*   P    (a fault that only the rule-level recover catches: the execution *)
(*        fails there)                                                     *)
(*   CW x (a conc block with a slow assignment to local x and a sibling    *)
(*        that succeeds: after the block x is assigned)                    *)
(*   CF x (a conc block with a slow assignment to local x and a failing    *)
(*        call: x is assigned, then the block - and the rule - fails)      *)
(*   WI a (assign injected field a)              RI a (read injected a)    *)
(*   WP g / RP g (assign / read the PLAIN name g.  Whether g is a local or *)
(*        injected data is a fact about one CALL: in a call that injects g *)
(*        (as a pointer) it is the call's shared cell, which the caller    *)
(*        sees afterwards; in a call that does not, it is a local of the   *)
(*        execution - the same statement of the same rule set either way)  *)
(* Every execution e of a rule (whatever model, call, goroutine or pool    *)
(* instance runs it) has its own store, initially empty.  A read of a      *)
(* local that this execution has not assigned is undefined: the execution  *)
(* stops there and its call reports an error.  Injected names are one      *)
(* store shared by everybody.                                              *)
(***************************************************************************)
EXTENDS Integers, Sequences, FiniteSets, TLC

VARIABLES prog,    \* [rule name -> Seq([k, name])]
          ex,      \* [execution id -> [rule, req, pc, store, ended]]
          inj,     \* [injected field -> value]
          pin,     \* [request -> value of the plain name it injected]: the requests that inject the plain name
          lh       \* history (model checking only)
lvars == <<prog, ex, inj, pin, lh>>

NextOp(e) == prog[ex[e].rule][ex[e].pc + 1]
HasNext(e) == ex[e].pc < Len(prog[ex[e].rule])
Stuck(e) == /\ ~ex[e].ended
            /\ \/ ex[e].failed
               \/ /\ HasNext(e) /\ NextOp(e).k \in {"R", "RM", "RN"}
                  /\ NextOp(e).name \notin DOMAIN ex[e].store
               \/ /\ HasNext(e) /\ NextOp(e).k = "RP" /\ ex[e].req \notin DOMAIN pin
                  /\ NextOp(e).name \notin DOMAIN ex[e].store

LBeginCore(p) ==
  /\ prog' = p /\ ex' = <<>> /\ inj' = <<>> /\ pin' = <<>>

\* request q injects the plain name (before any of its rules runs); the cell starts at 0
LPinCore(q) ==
  /\ q \notin DOMAIN pin
  /\ \A e \in DOMAIN ex : ex[e].req # q
  /\ pin' = (q :> 0) @@ pin
  /\ UNCHANGED <<prog, ex, inj>>

EStartCore(e, r, q) ==
  /\ e \notin DOMAIN ex
  /\ r \in DOMAIN prog
  /\ ex' = (e :> [rule |-> r, req |-> q, pc |-> 0, store |-> <<>>, ended |-> FALSE, failed |-> FALSE]) @@ ex
  /\ UNCHANGED <<prog, inj, pin>>

\* operation number i of execution e was performed and produced / observed val
EOpCore(e, i, val) ==
  /\ e \in DOMAIN ex /\ ~ex[e].ended /\ ~ex[e].failed /\ HasNext(e) /\ i = ex[e].pc + 1
  /\ LET op == NextOp(e) IN
     CASE op.k \in {"W", "FR", "CW", "WF", "WM", "WN"}
                      -> /\ ex' = [ex EXCEPT ![e].pc = i, ![e].store = (op.name :> val) @@ @]
                         /\ UNCHANGED <<inj, pin>>
       [] op.k \in {"R", "RM", "RN"}
                      -> /\ op.name \in DOMAIN ex[e].store
                         /\ val = ex[e].store[op.name]
                         /\ ex' = [ex EXCEPT ![e].pc = i]
                         /\ UNCHANGED <<inj, pin>>
       [] op.k \in {"H", "T"}
                      -> /\ ex' = [ex EXCEPT ![e].pc = i] /\ UNCHANGED <<inj, pin>>
       [] op.k = "CF" -> /\ ex' = [ex EXCEPT ![e].pc = i, ![e].store = (op.name :> val) @@ @, ![e].failed = TRUE]
                         /\ UNCHANGED <<inj, pin>>
       [] op.k = "P"  -> /\ ex' = [ex EXCEPT ![e].pc = i, ![e].failed = TRUE]
                         /\ UNCHANGED <<inj, pin>>
       [] op.k = "WI" -> /\ ex' = [ex EXCEPT ![e].pc = i]
                         /\ inj' = (op.name :> val) @@ inj
                         /\ UNCHANGED pin
       [] op.k = "RI" -> /\ val = (IF op.name \in DOMAIN inj THEN inj[op.name] ELSE 0)
                         /\ ex' = [ex EXCEPT ![e].pc = i]
                         /\ UNCHANGED <<inj, pin>>
       [] op.k = "WP" -> IF ex[e].req \in DOMAIN pin
                         THEN /\ ex' = [ex EXCEPT ![e].pc = i]
                              /\ pin' = [pin EXCEPT ![ex[e].req] = val]
                              /\ UNCHANGED inj
                         ELSE /\ ex' = [ex EXCEPT ![e].pc = i, ![e].store = (op.name :> val) @@ @]
                              /\ UNCHANGED <<inj, pin>>
       [] op.k = "RP" -> /\ IF ex[e].req \in DOMAIN pin
                            THEN val = pin[ex[e].req]
                            ELSE op.name \in DOMAIN ex[e].store /\ val = ex[e].store[op.name]
                         /\ ex' = [ex EXCEPT ![e].pc = i]
                         /\ UNCHANGED <<inj, pin>>
  /\ UNCHANGED prog

EEndCore(e) ==
  /\ e \in DOMAIN ex /\ ~ex[e].ended /\ ~ex[e].failed /\ ~HasNext(e)
  /\ ex' = [ex EXCEPT ![e].ended = TRUE]
  /\ UNCHANGED <<prog, inj, pin>>

\* request q returned: all its executions are over (ended, or stopped at an
\* undefined read) and it reports an error iff one of them stopped; gpv: what
\* the caller finds in the plain name it injected (0 when it injected none)
LReturnCore(q, err, gpv) ==
  /\ \A e \in DOMAIN ex : ex[e].req = q => (ex[e].ended \/ Stuck(e))
  /\ err = (\E e \in DOMAIN ex : ex[e].req = q /\ Stuck(e))
  /\ gpv = (IF q \in DOMAIN pin THEN pin[q] ELSE 0)
  /\ UNCHANGED <<prog, ex, inj, pin>>

-----------------------------------------------------------------------------
(* Model checking: bounded programs, any number (<= MaxEx) of executions of *)
(* any rule in any interleaving; values are drawn fresh (execution, op).    *)
CONSTANTS LProgs,    \* set of candidate programs (sequences of ops)
          LRules,    \* rule names
          MaxEx

LInit == /\ prog \in [LRules -> LProgs] /\ ex = <<>> /\ inj = <<>> /\ pin = <<>> /\ lh = <<>>

Fresh(e, i) == e * 10 + i
LNext ==
  \/ LPinCore(1) /\ UNCHANGED lh
  \/ \E e \in 1..MaxEx, r \in LRules :
        /\ e = Cardinality(DOMAIN ex) + 1
        /\ EStartCore(e, r, 1) /\ UNCHANGED lh
  \/ \E e \in DOMAIN ex :
        \/ /\ HasNext(e)
           /\ \E val \in {Fresh(e, ex[e].pc + 1)} \cup
                         (IF NextOp(e).k = "R" /\ NextOp(e).name \in DOMAIN ex[e].store
                          THEN {ex[e].store[NextOp(e).name]} ELSE {}) \cup
                         (IF NextOp(e).k = "RI"
                          THEN {IF NextOp(e).name \in DOMAIN inj THEN inj[NextOp(e).name] ELSE 0} ELSE {}) \cup
                         (IF NextOp(e).k = "RP"
                          THEN (IF 1 \in DOMAIN pin THEN {pin[1]}
                                ELSE IF NextOp(e).name \in DOMAIN ex[e].store THEN {ex[e].store[NextOp(e).name]} ELSE {})
                          ELSE {}) :
                /\ EOpCore(e, ex[e].pc + 1, val)
                /\ lh' = Append(lh, [e |-> e, i |-> ex[e].pc + 1, k |-> NextOp(e).k,
                                     name |-> NextOp(e).name, val |-> val, pinned |-> 1 \in DOMAIN pin])
        \/ EEndCore(e) /\ UNCHANGED lh
LSpec == LInit /\ [][LNext]_lvars

\* Written from the statement over the history: a successful read of local x
\* by execution e observes the latest value e itself assigned to x, and there
\* is such an assignment - never a value of another execution.
ReadsOwnWrites ==
  \A j \in DOMAIN lh : lh[j].k = "R" =>
     \E w \in 1..(j-1) :
        /\ lh[w].k \in {"W", "FR", "CW", "WF", "WM", "WN"} /\ lh[w].e = lh[j].e /\ lh[w].name = lh[j].name /\ lh[w].val = lh[j].val
        /\ \A m \in (w+1)..(j-1) : ~(lh[m].k \in {"W", "FR", "CW", "WF", "WM", "WN"} /\ lh[m].e = lh[j].e /\ lh[m].name = lh[j].name)
StartUndefined ==
  \A e \in DOMAIN ex : ex[e].pc = 0 => ex[e].store = <<>>
SharedInjected ==
  \A j \in DOMAIN lh : lh[j].k = "RI" =>
     \/ /\ lh[j].val = 0 /\ \A w \in 1..(j-1) : ~(lh[w].k = "WI" /\ lh[w].name = lh[j].name)
     \/ \E w \in 1..(j-1) :
          /\ lh[w].k = "WI" /\ lh[w].name = lh[j].name /\ lh[w].val = lh[j].val
          /\ \A m \in (w+1)..(j-1) : ~(lh[m].k = "WI" /\ lh[m].name = lh[j].name)
\* A plain name: in a call that injects it, a read observes the latest assignment by ANY execution of the call
\* (0 before the first); in a call that does not, only the reader's own latest assignment.
PlainNames ==
  \A j \in DOMAIN lh : lh[j].k = "RP" =>
     IF lh[j].pinned
     THEN \/ /\ lh[j].val = 0 /\ \A w \in 1..(j-1) : ~(lh[w].k = "WP" /\ lh[w].pinned)
          \/ \E w \in 1..(j-1) :
               /\ lh[w].k = "WP" /\ lh[w].pinned /\ lh[w].val = lh[j].val
               /\ \A m \in (w+1)..(j-1) : ~(lh[m].k = "WP" /\ lh[m].pinned)
     ELSE \E w \in 1..(j-1) :
               /\ lh[w].k = "WP" /\ lh[w].e = lh[j].e /\ lh[w].val = lh[j].val
               /\ \A m \in (w+1)..(j-1) : ~(lh[m].k = "WP" /\ lh[m].e = lh[j].e)
=============================================================================
