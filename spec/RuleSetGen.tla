------------------------------ MODULE RuleSetGen ------------------------------
(* History generator: every sequence of <= GMaxOps operations over a small   *)
(* alphabet of texts (new names, same name with equal / changed salience,    *)
(* several rules per call, ties) and removals (present, absent, empty).      *)
EXTENDS RuleSetMC, Json, SequencesExt
CONSTANTS GMaxOps
R(n, s) == [name |-> n, sal |-> s]
Alphabet == {
  [kind |-> "full", rules |-> <<R("a", 1)>>, names |-> <<>>],
  [kind |-> "full", rules |-> <<R("a", 0), R("b", 1), R("c", 1)>>, names |-> <<>>],
  [kind |-> "full", rules |-> <<R("c", -1), R("b", 2)>>, names |-> <<>>],
  [kind |-> "incr", rules |-> <<R("a", 1)>>, names |-> <<>>],
  [kind |-> "incr", rules |-> <<R("a", 3)>>, names |-> <<>>],
  [kind |-> "incr", rules |-> <<R("d", 1)>>, names |-> <<>>],
  [kind |-> "incr", rules |-> <<R("d", -2), R("b", 1)>>, names |-> <<>>],
  [kind |-> "incr", rules |-> <<R("c", 0), R("a", 0), R("e", 0)>>, names |-> <<>>],
  [kind |-> "incr", rules |-> <<R("b", 5), R("c", 4)>>, names |-> <<>>],
  [kind |-> "remove", rules |-> <<>>, names |-> <<"a">>],
  [kind |-> "remove", rules |-> <<>>, names |-> <<"b", "c">>],
  [kind |-> "remove", rules |-> <<>>, names |-> <<"zz">>],
  [kind |-> "remove", rules |-> <<>>, names |-> <<>>],
  [kind |-> "bad", rules |-> <<>>, names |-> <<>>] }
Histories == UNION {[1..n -> Alphabet] : n \in 1..GMaxOps}
ASSUME ndJsonSerialize("gen.ndjson", SetToSeq({[ops |-> hh] : hh \in Histories}))
=============================================================================
