SPECIFICATION MCFair
CHECK_DEADLOCK FALSE
CONSTANTS
  None = 0
  Reqs = {1, 2, 3}
  MCMin = 1
  MCMax = 2
  Pinned = TRUE
  MCUpdates = 1
  MCStages = 1
PROPERTY AllReturn
