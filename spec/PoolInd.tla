------------------------------ MODULE PoolInd ------------------------------
(***************************************************************************)
(* Inductive argument for the instance bookkeeping of Pool.tla (C17) with  *)
(* an UNBOUNDED number of requests, discharged by Apalache:                *)
(*    IndInit => IndInv                 (length 0)                         *)
(*    IndInv /\ Next => IndInv'         (length 1)                         *)
(* IndInv says: every instance is in exactly one of {free, held, transit}, *)
(* a holder is a positive request id, and no request holds two instances.  *)
(* Requests are plain integers: nothing bounds how many there are.         *)
(***************************************************************************)
EXTENDS Integers, FiniteSets

\* the pool size is fixed here (Apalache needs constant ranges); what is unbounded is the number of requests
Max == 4

VARIABLES
  \* @type: Set(Int);
  free,
  \* @type: Int -> Int;
  holder,
  \* @type: Set(Int);
  transit

Insts == 0..3
None == 0

\* @type: (Int, Int) => Bool;
Pop(q, i) ==
  /\ q > 0
  /\ i \in free
  /\ holder[i] = None
  /\ \A j \in Insts : holder[j] # q          \* a request asks for one instance
  /\ free' = free \ {i}
  /\ holder' = [holder EXCEPT ![i] = q]
  /\ UNCHANGED transit

\* the request returns (normally, with an error or with a panic): the deferred release runs
\* @type: (Int) => Bool;
Release(i) ==
  /\ i \in Insts
  /\ holder[i] # None
  /\ holder' = [holder EXCEPT ![i] = None]
  /\ transit' = transit \cup {i}
  /\ UNCHANGED free

\* the asynchronous hand-back goroutine
\* @type: (Int) => Bool;
Push(i) ==
  /\ i \in transit
  /\ transit' = transit \ {i}
  /\ free' = free \cup {i}
  /\ UNCHANGED holder

Next ==
  \/ \E q \in Int : \E i \in Insts : Pop(q, i)
  \/ \E i \in Insts : Release(i)
  \/ \E i \in Insts : Push(i)

Init ==
  /\ free = Insts
  /\ holder = [i \in Insts |-> None]
  /\ transit = {}

TypeOK ==
  /\ free \subseteq Insts
  /\ transit \subseteq Insts
  /\ DOMAIN holder = Insts
  /\ \A i \in Insts : holder[i] >= 0

ExactlyOnePlace ==
  \A i \in Insts :
     /\ (i \in free) => (holder[i] = None /\ i \notin transit)
     /\ (i \in transit) => (holder[i] = None /\ i \notin free)
     /\ (holder[i] = None) => (i \in free \/ i \in transit)

OneInstancePerRequest ==
  \A i, j \in Insts : (holder[i] # None /\ holder[i] = holder[j]) => i = j

IndInv == TypeOK /\ ExactlyOnePlace /\ OneInstancePerRequest

\* the inductive hypothesis as an initial condition
IndInit ==
  /\ free \in SUBSET Insts
  /\ transit \in SUBSET Insts
  /\ holder \in [Insts -> Int]
  /\ IndInv

\* what C17 asks of the bookkeeping
AtMostMax == Cardinality({i \in Insts : holder[i] # None}) <= Max
=============================================================================
