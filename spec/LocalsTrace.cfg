SPECIFICATION TraceSpec
CONSTRAINT Mark
POSTCONDITION TraceAccepted
CHECK_DEADLOCK FALSE
CONSTANTS
  LProgs = {}
  LRules = {}
  MaxEx = 0
