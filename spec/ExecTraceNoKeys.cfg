SPECIFICATION TraceSpec
CONSTRAINT Mark
POSTCONDITION TraceAccepted
CHECK_DEADLOCK FALSE
CONSTANTS
  CheckKeys = FALSE
  MCNames = {}
  MCUnknown = {}
  MCSal = {}
  MCMethods = {}
  MCMaxNames = 0
  MCDags = {}
  MCNM = {}
