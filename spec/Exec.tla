-------------------------------- MODULE Exec --------------------------------
(***************************************************************************)
(* The execution models of gengine (engine/gengine.go, 21 Execute*         *)
(* methods; the 24 pool methods map onto them).                            *)
(*                                                                         *)
(* Every method is described by a PLAN: a sequence of stages.  A stage is  *)
(* either a WINDOW ("win": the `size` highest-salience rules of what is    *)
(* left in the pool of candidate rules, ties resolved arbitrarily) or a    *)
(* LIST ("list": exactly the given occurrences, duplicates allowed), and   *)
(* it is run sequentially ("seq") or by one goroutine per rule ("par").    *)
(* One generic machine runs every plan: Begin, Start(r), End(r, outcome),  *)
(* Return.  Stage changes are not steps of their own: the state is kept    *)
(* normalised (Norm), so that one observable event of the implementation   *)
(* is exactly one step of the specification.                               *)
(*                                                                         *)
(* The plan is written from the property statements (C04 C05 C11 C12 C13   *)
(* C14), not from the code: where the code deviates (e.g. the N-M sorted   *)
(* stage returning after its first rule) the trace of the code is not a    *)
(* behaviour of this module.                                               *)
(***************************************************************************)
EXTENDS Integers, Sequences, FiniteSets, TLC

VARIABLES
    scen,     \* the call: [method, rules, b, names, n, m, dag]
    k,        \* index of the current stage (normalised), Len+1 when all done
    pool,     \* candidate rules not yet consumed by an earlier window
    nstart,   \* [name -> number of occurrences started in the current stage]
    nrun,     \* [name -> number of executions currently running]
    sfail,    \* failures inside the current stage
    nfail,    \* failures in this call
    tag,      \* stop tag set in this call
    result,   \* result map: function from rule names to returned values
    phase,    \* "idle" | "running" | "returned"
    h         \* history of start/end events of this call (model checking only)

vars == <<scen, k, pool, nstart, nrun, sfail, nfail, tag, result, phase, h>>

-----------------------------------------------------------------------------
(* Helpers *)

Rng(s) == {s[i] : i \in DOMAIN s}
Max2(a, b) == IF a >= b THEN a ELSE b
RECURSIVE SumF(_, _)
SumF(f, S) == IF S = {} THEN 0
              ELSE LET x == CHOOSE y \in S : TRUE IN f[x] + SumF(f, S \ {x})
Total(f) == SumF(f, DOMAIN f)
Mult(seq, x) == Cardinality({i \in DOMAIN seq : seq[i] = x})
Zero(S) == [x \in S |-> 0]

Methods == {
  "Execute", "ExecuteWithStopTagDirect", "ExecuteConcurrent", "ExecuteMixModel",
  "ExecuteMixModelWithStopTagDirect", "ExecuteSelectedRules",
  "ExecuteSelectedRulesWithControl", "ExecuteSelectedRulesWithControlAsGivenSortedName",
  "ExecuteSelectedRulesWithControlAndStopTag",
  "ExecuteSelectedRulesWithControlAndStopTagAsGivenSortedName",
  "ExecuteSelectedRulesConcurrent", "ExecuteSelectedRulesMixModel",
  "ExecuteInverseMixModel", "ExecuteSelectedRulesInverseMixModel",
  "ExecuteNSortMConcurrent", "ExecuteNConcurrentMSort", "ExecuteNConcurrentMConcurrent",
  "ExecuteSelectedNSortMConcurrent", "ExecuteSelectedNConcurrentMSort",
  "ExecuteSelectedNConcurrentMConcurrent", "ExecuteDAGModel" }

SelectedMethods == {
  "ExecuteSelectedRules", "ExecuteSelectedRulesWithControl",
  "ExecuteSelectedRulesWithControlAsGivenSortedName",
  "ExecuteSelectedRulesWithControlAndStopTag",
  "ExecuteSelectedRulesWithControlAndStopTagAsGivenSortedName",
  "ExecuteSelectedRulesConcurrent", "ExecuteSelectedRulesMixModel",
  "ExecuteSelectedRulesInverseMixModel" }

SelectedNM == { "ExecuteSelectedNSortMConcurrent", "ExecuteSelectedNConcurrentMSort",
                "ExecuteSelectedNConcurrentMConcurrent" }
PlainNM == { "ExecuteNSortMConcurrent", "ExecuteNConcurrentMSort",
             "ExecuteNConcurrentMConcurrent" }
TagMethods == { "ExecuteWithStopTagDirect", "ExecuteMixModelWithStopTagDirect",
                "ExecuteSelectedRulesWithControlAndStopTag",
                "ExecuteSelectedRulesWithControlAndStopTagAsGivenSortedName" }

-----------------------------------------------------------------------------
(* Plans *)

Win(mode, size, stopOnErr, gateErr, tagGate) ==
  [kind |-> "win", mode |-> mode, size |-> size, occ |-> <<>>,
   stopOnErr |-> stopOnErr, gateErr |-> gateErr, tagGate |-> tagGate]
Lst(mode, occ, stopOnErr, gateErr, tagGate) ==
  [kind |-> "list", mode |-> mode, size |-> Len(occ), occ |-> occ,
   stopOnErr |-> stopOnErr, gateErr |-> gateErr, tagGate |-> tagGate]

Installed(s) == DOMAIN s.rules
Existing(s, names) == SelectSeq(names, LAMBDA x : x \in Installed(s))
NoDup(seq) == \A i, j \in DOMAIN seq : seq[i] = seq[j] => i = j

Reject == [reject |-> TRUE, stages |-> <<>>, pool |-> {}]
Accept(P, stages) == [reject |-> FALSE, stages |-> stages, pool |-> P]

NMStages(meth, n, m, b) ==
  CASE meth \in {"ExecuteNSortMConcurrent", "ExecuteSelectedNSortMConcurrent"} ->
         << Win("seq", n, ~b, FALSE, FALSE), Win("par", m, FALSE, FALSE, FALSE) >>
    [] meth \in {"ExecuteNConcurrentMSort", "ExecuteSelectedNConcurrentMSort"} ->
         << Win("par", n, FALSE, ~b, FALSE), Win("seq", m, ~b, FALSE, FALSE) >>
    [] OTHER ->
         << Win("par", n, FALSE, ~b, FALSE), Win("par", m, FALSE, FALSE, FALSE) >>

Plan(s) ==
  LET R  == Installed(s)
      E  == Existing(s, s.names)
      ES == Rng(E)
      M  == s.method
      b  == s.b
  IN
  CASE M = "Execute" ->
         IF R = {} THEN Reject
         ELSE Accept(R, << Win("seq", Cardinality(R), ~b, FALSE, FALSE) >>)
    [] M = "ExecuteWithStopTagDirect" ->
         IF R = {} THEN Reject
         ELSE Accept(R, << Win("seq", Cardinality(R), ~b, FALSE, TRUE) >>)
    [] M = "ExecuteConcurrent" ->
         IF R = {} THEN Reject
         ELSE Accept(R, << Win("par", Cardinality(R), FALSE, FALSE, FALSE) >>)
    [] M = "ExecuteMixModel" ->
         IF R = {} THEN Reject
         ELSE Accept(R, << Win("seq", 1, TRUE, FALSE, FALSE),
                           Win("par", Cardinality(R) - 1, FALSE, FALSE, FALSE) >>)
    [] M = "ExecuteMixModelWithStopTagDirect" ->
         IF R = {} THEN Reject
         ELSE Accept(R, << Win("seq", 1, TRUE, FALSE, FALSE),
                           Win("par", Cardinality(R) - 1, FALSE, FALSE, TRUE) >>)
    [] M = "ExecuteInverseMixModel" ->
         IF R = {} THEN Reject
         ELSE Accept(R, << Win("par", Cardinality(R) - 1, FALSE, TRUE, FALSE),
                           Win("seq", 1, FALSE, FALSE, FALSE) >>)
    [] M = "ExecuteSelectedRules" ->
         IF ES = {} THEN Reject
         ELSE Accept(ES, << Win("seq", Cardinality(ES), FALSE, FALSE, FALSE) >>)
    [] M = "ExecuteSelectedRulesWithControl" ->
         IF ES = {} THEN Reject
         ELSE Accept(ES, << Win("seq", Cardinality(ES), ~b, FALSE, FALSE) >>)
    [] M = "ExecuteSelectedRulesWithControlAndStopTag" ->
         IF ES = {} THEN Reject
         ELSE Accept(ES, << Win("seq", Cardinality(ES), ~b, FALSE, TRUE) >>)
    [] M = "ExecuteSelectedRulesWithControlAsGivenSortedName" ->
         IF ES = {} THEN Reject
         ELSE Accept(ES, << Lst("seq", E, ~b, FALSE, FALSE) >>)
    [] M = "ExecuteSelectedRulesWithControlAndStopTagAsGivenSortedName" ->
         IF ES = {} THEN Reject
         ELSE Accept(ES, << Lst("seq", E, ~b, FALSE, TRUE) >>)
    [] M = "ExecuteSelectedRulesConcurrent" ->
         IF ES = {} THEN Reject
         ELSE Accept(ES, << Win("par", Cardinality(ES), FALSE, FALSE, FALSE) >>)
    [] M = "ExecuteSelectedRulesMixModel" ->
         IF ES = {} THEN Reject
         ELSE Accept(ES, << Win("seq", 1, TRUE, FALSE, FALSE),
                            Win("par", Cardinality(ES) - 1, FALSE, FALSE, FALSE) >>)
    [] M = "ExecuteSelectedRulesInverseMixModel" ->
         IF ES = {} THEN Reject
         ELSE Accept(ES, << Win("par", Cardinality(ES) - 1, FALSE, TRUE, FALSE),
                            Win("seq", 1, FALSE, FALSE, FALSE) >>)
    [] M \in PlainNM ->
         IF s.n <= 0 \/ s.m <= 0 \/ s.n + s.m > Cardinality(R) THEN Reject
         ELSE Accept(R, NMStages(M, s.n, s.m, b))
    [] M \in SelectedNM ->
         IF s.n <= 0 \/ s.m <= 0 \/ s.n + s.m # Len(s.names)
            \/ ~(Rng(s.names) \subseteq R) THEN Reject
         ELSE Accept(Rng(s.names), NMStages(M, s.n, s.m, b))
    [] M = "ExecuteDAGModel" ->
         Accept(R, [i \in DOMAIN s.dag |-> Lst("par", Existing(s, s.dag[i]), FALSE, TRUE, FALSE)])

\* Scenarios for which the statements make a promise (others are out of scope):
\* selected name lists without repetition (DAG layers may repeat names).
InScope(s) ==
  /\ s.method \in Methods
  /\ s.method \in (SelectedMethods \cup SelectedNM) => NoDup(s.names)

-----------------------------------------------------------------------------
(* The machine *)

plan == Plan(scen)
NStages == Len(plan.stages)
Sal(r) == scen.rules[r]

StartedSet(ns) == {r \in DOMAIN ns : ns[r] > 0}

\* threshold of a window of `size` over pool P: the size-th largest salience
Thresh(P, size) ==
  CHOOSE v \in {Sal(q) : q \in P} :
     /\ Cardinality({q \in P : Sal(q) > v}) < size
     /\ Cardinality({q \in P : Sal(q) >= v}) >= size

StageFull(S, ns) == Total(ns) = S.size
ErrStop(S, sf) == S.stopOnErr /\ sf > 0
TagStop(S, ns, tg) == S.tagGate /\ tg /\ (S.mode = "seq" \/ Total(ns) = 0)
StageOver(S, ns, nr, sf, tg) ==
  /\ Total(nr) = 0
  /\ StageFull(S, ns) \/ ErrStop(S, sf) \/ TagStop(S, ns, tg)
Abort(S, ns, sf, nf, tg) ==
  ErrStop(S, sf) \/ TagStop(S, ns, tg) \/ (S.gateErr /\ nf > 0)

\* Normalisation: skip stages that are over and do not abort.  Returns the
\* record of the stage-local variables.
RECURSIVE Norm(_, _, _, _, _, _, _)
Norm(kk, P, ns, nr, sf, nf, tg) ==
  IF kk > NStages THEN [k |-> kk, pool |-> P, nstart |-> ns, sfail |-> sf]
  ELSE LET S == plan.stages[kk] IN
       IF StageOver(S, ns, nr, sf, tg) /\ ~Abort(S, ns, sf, nf, tg)
       THEN Norm(kk + 1,
                 IF S.kind = "win" THEN P \ StartedSet(ns) ELSE P,
                 Zero(DOMAIN ns), nr, 0, nf, tg)
       ELSE [k |-> kk, pool |-> P, nstart |-> ns, sfail |-> sf]

Finished ==
  IF plan.reject \/ k > NStages THEN TRUE
  ELSE LET S == plan.stages[k] IN
       StageOver(S, nstart, nrun, sfail, tag) /\ Abort(S, nstart, sfail, nfail, tag)

\* May rule r be started now?
CanStart(r) ==
  /\ phase = "running"
  /\ r \in DOMAIN nrun
  /\ ~plan.reject
  /\ k <= NStages
  /\ LET S == plan.stages[k]
         started == StartedSet(nstart)
     IN
     /\ ~ErrStop(S, sfail)
     /\ ~TagStop(S, nstart, tag)
     /\ ~StageFull(S, nstart)
     /\ S.mode = "seq" => Total(nrun) = 0
     /\ IF S.kind = "list"
        THEN IF S.mode = "seq" THEN r = S.occ[Total(nstart) + 1]
                               ELSE nstart[r] < Mult(S.occ, r)
        ELSE /\ r \in pool \ started
             /\ IF S.mode = "seq"
                THEN \A q \in pool \ started : Sal(q) <= Sal(r)
                ELSE LET t    == Thresh(pool, S.size)
                         must == {q \in pool : Sal(q) > t}
                         may  == {q \in pool : Sal(q) = t}
                     IN  \/ r \in must
                         \/ /\ r \in may
                            /\ Cardinality(started \cap may) < S.size - Cardinality(must)

AllNames(s) ==
  Installed(s) \cup Rng(s.names)
  \cup UNION {Rng(s.dag[i]) : i \in DOMAIN s.dag}

BeginCore(s) ==
  /\ phase \in {"idle", "returned"}
  /\ InScope(s)
  /\ scen' = s
  /\ phase' = "running"
  /\ nfail' = 0 /\ tag' = FALSE
  /\ result' = <<>>      \* the empty function
  /\ nrun' = Zero(AllNames(s))
  /\ LET p == Plan(s)
         nz == Zero(AllNames(s))
         \* Norm refers to the primed scenario through `plan`; so it is
         \* re-stated here on p.
         RECURSIVE N0(_, _)
         N0(kk, P) == IF kk > Len(p.stages) THEN [k |-> kk, pool |-> P]
                      ELSE IF p.stages[kk].size = 0 THEN N0(kk + 1, P)
                      ELSE [k |-> kk, pool |-> P]
         z == N0(1, p.pool)
     IN /\ k' = z.k /\ pool' = z.pool /\ nstart' = nz /\ sfail' = 0

StartCore(r) ==
  /\ CanStart(r)
  /\ nstart' = [nstart EXCEPT ![r] = @ + 1]
  /\ nrun' = [nrun EXCEPT ![r] = @ + 1]
  /\ UNCHANGED <<scen, k, pool, sfail, nfail, tag, result, phase>>

\* out \in {"ok", "ret", "fail"}; val is the returned value (a string), st =
\* the rule set the stop tag during this execution.
EndCore(r, out, val, st) ==
  /\ phase = "running"
  /\ r \in DOMAIN nrun /\ nrun[r] > 0
  /\ LET nr == [nrun EXCEPT ![r] = @ - 1]
         sf == IF out = "fail" THEN sfail + 1 ELSE sfail
         nf == IF out = "fail" THEN nfail + 1 ELSE nfail
         tg == tag \/ st
         z  == Norm(k, pool, nstart, nr, sf, nf, tg)
     IN /\ nrun' = nr /\ nfail' = nf /\ tag' = tg
        /\ k' = z.k /\ pool' = z.pool /\ nstart' = z.nstart /\ sfail' = z.sfail
  /\ result' = IF out = "ret" THEN (r :> val) @@ result ELSE result
  /\ UNCHANGED <<scen, phase>>

PredErr == plan.reject \/ nfail > 0

\* err: the call returned a non-nil error; keys: the result map it handed back
ReturnCore(err, keys) ==
  /\ phase = "running"
  /\ Total(nrun) = 0
  /\ Finished
  /\ err = PredErr
  /\ keys = result
  /\ phase' = "returned"
  /\ UNCHANGED <<scen, k, pool, nstart, nrun, sfail, nfail, tag, result>>

-----------------------------------------------------------------------------
(* Model checking: bounded scenario space, outcomes chosen freely *)

CONSTANTS MCNames,      \* installed-rule candidates, e.g. {"r1","r2","r3"}
          MCUnknown,    \* names that are never installed, e.g. {"zz"}
          MCSal,        \* saliences, e.g. {-1, 0, 1}
          MCMethods,    \* subset of Methods explored by this configuration
          MCMaxNames,   \* maximal length of the selected-name list
          MCDags,       \* set of DAG shapes (sequences of sequences of names)
          MCNM          \* set of <<n, m>> pairs

SeqsUpTo(S, n) == UNION {[1..i -> S] : i \in 0..n}

MCScenarios ==
  { s \in [method : MCMethods,
           rules  : UNION {[R -> MCSal] : R \in SUBSET MCNames},
           b      : BOOLEAN,
           names  : SeqsUpTo(MCNames \cup MCUnknown, MCMaxNames),
           nm     : MCNM,
           dag    : MCDags] :
      /\ s.method \notin (SelectedMethods \cup SelectedNM) => s.names = <<>>
      /\ s.method # "ExecuteDAGModel" => s.dag = <<>>
      /\ s.method \notin (PlainNM \cup SelectedNM) => s.nm = <<0, 0>>
      /\ s.method \in (SelectedMethods \cup SelectedNM) => NoDup(s.names)
      \* flag-less methods are explored with b = TRUE only
      /\ s.method \in {"ExecuteConcurrent", "ExecuteMixModel",
                       "ExecuteMixModelWithStopTagDirect", "ExecuteSelectedRules",
                       "ExecuteSelectedRulesConcurrent", "ExecuteSelectedRulesMixModel",
                       "ExecuteInverseMixModel", "ExecuteSelectedRulesInverseMixModel",
                       "ExecuteDAGModel"} => s.b }

ToScen(s) == [method |-> s.method, rules |-> s.rules, b |-> s.b, names |-> s.names,
              n |-> s.nm[1], m |-> s.nm[2], dag |-> s.dag]

NoScen == [method |-> "Execute", rules |-> <<>>, b |-> TRUE, names |-> <<>>,
           n |-> 0, m |-> 0, dag |-> <<>>]

Init ==
  /\ scen = NoScen /\ k = 1 /\ pool = {} /\ nstart = <<>> /\ nrun = <<>>
  /\ sfail = 0 /\ nfail = 0 /\ tag = FALSE /\ result = <<>> /\ phase = "idle"
  /\ h = <<>>

Begin(s) == BeginCore(s) /\ h' = <<>>
Start(r) == StartCore(r)
            /\ h' = Append(h, [ev |-> "start", r |-> r, stage |-> k])
End(r, out, st) ==
  /\ EndCore(r, out, r, st)
  /\ h' = Append(h, [ev |-> "end", r |-> r, out |-> out, st |-> st, stage |-> k])
Return == /\ ReturnCore(PredErr, result)
          /\ UNCHANGED h

MCNext ==
  \/ phase = "idle" /\ \E s \in MCScenarios : Begin(ToScen(s))
  \/ \E r \in DOMAIN nrun : Start(r)
  \/ \E r \in DOMAIN nrun, out \in {"ok", "ret", "fail"} :
        \E st \in (IF scen.method \in TagMethods THEN BOOLEAN ELSE {FALSE}) :
           End(r, out, st)
  \/ Return

MCSpec == Init /\ [][MCNext]_vars

\* h does not influence behaviour: hide it from fingerprints
MCView == <<scen, k, pool, nstart, nrun, sfail, nfail, tag, result, phase, h>>

-----------------------------------------------------------------------------
(* Properties, written from the statements over the history h, independently *)
(* of Plan: two formalisations that cross-check each other.                  *)

Starts == SelectSeq(h, LAMBDA e : e.ev = "start")
Ends   == SelectSeq(h, LAMBDA e : e.ev = "end")
StartIdx(r) == {i \in DOMAIN h : h[i].ev = "start" /\ h[i].r = r}
EndIdx(r)   == {i \in DOMAIN h : h[i].ev = "end" /\ h[i].r = r}
Failed == {i \in DOMAIN h : h[i].ev = "end" /\ h[i].out = "fail"}
Done == phase = "returned"

SortedMethods == { "Execute", "ExecuteWithStopTagDirect", "ExecuteSelectedRules",
                   "ExecuteSelectedRulesWithControl",
                   "ExecuteSelectedRulesWithControlAndStopTag" }
GivenMethods == { "ExecuteSelectedRulesWithControlAsGivenSortedName",
                  "ExecuteSelectedRulesWithControlAndStopTagAsGivenSortedName" }
SeqMethods == SortedMethods \cup GivenMethods

TargetSet ==
  IF scen.method \in SelectedMethods THEN Rng(scen.names) \cap Installed(scen)
  ELSE Installed(scen)

StopOnErrFlag ==
  CASE scen.method \in {"ExecuteSelectedRules"} -> FALSE
    [] OTHER -> ~scen.b

\* C04/C12: one at a time, non-increasing salience, each at most once
OneAtATime ==
  scen.method \in SeqMethods =>
    \A i \in DOMAIN h : h[i].ev = "start" =>
       \A j \in 1..(i-1) : h[j].ev = "start" =>
          \E e \in (j+1)..(i-1) : h[e].ev = "end" /\ h[e].r = h[j].r
SortOrder ==
  scen.method \in SortedMethods =>
    \A i, j \in DOMAIN Starts : i < j => Sal(Starts[i].r) >= Sal(Starts[j].r)
Once ==
  scen.method # "ExecuteDAGModel" =>
    \A r \in DOMAIN nrun : Cardinality(StartIdx(r)) <= 1
OnlyTargets ==
  scen.method \notin (PlainNM \cup SelectedNM \cup {"ExecuteDAGModel"}) =>
    \A i \in DOMAIN Starts : Starts[i].r \in TargetSet
\* continue-on-error: at return every target ran, error iff some failure
ContinueAll ==
  (Done /\ scen.method \in SeqMethods /\ ~StopOnErrFlag /\ ~tag /\ TargetSet # {}) =>
     \A r \in TargetSet : StartIdx(r) # {}
StopAtFirst ==
  (scen.method \in SeqMethods /\ StopOnErrFlag) =>
     \A f \in Failed : \A i \in DOMAIN h : i > f => h[i].ev # "start"
GivenOrder ==
  scen.method \in GivenMethods =>
    LET E == Existing(scen, scen.names) IN
      \A i \in DOMAIN Starts : Starts[i].r = E[i]
ErrIff ==
  (Done /\ ~plan.reject) => (PredErr <=> Failed # {})
RejectRunsNothing ==
  plan.reject => h = <<>>

\* C05: mix
MixMethods == {"ExecuteMixModel", "ExecuteMixModelWithStopTagDirect", "ExecuteSelectedRulesMixModel"}
MixBarrier ==
  (scen.method \in MixMethods /\ Len(Starts) >= 1) =>
    LET top == Starts[1].r IN
      /\ \A q \in TargetSet : Sal(top) >= Sal(q)
      /\ \A i \in DOMAIN h : (h[i].ev = "start" /\ h[i].r # top) =>
            \E e \in 1..(i-1) : h[e].ev = "end" /\ h[e].r = top /\ h[e].out # "fail"
InvMethods == {"ExecuteInverseMixModel", "ExecuteSelectedRulesInverseMixModel"}
InvBarrier ==
  (scen.method \in InvMethods /\ Cardinality(TargetSet) >= 1) =>
    \A i \in DOMAIN h :
      (h[i].ev = "start" /\ Cardinality({j \in 1..i : h[j].ev = "start"}) = Cardinality(TargetSet)) =>
        \* the last rule to start: lowest salience, all others ended without failure
        /\ \A q \in TargetSet : Sal(h[i].r) <= Sal(q)
        /\ \A q \in TargetSet \ {h[i].r} :
             \E e \in 1..(i-1) : h[e].ev = "end" /\ h[e].r = q /\ h[e].out # "fail"
\* C05: N-M window: never a rule outside the N+M highest
NMWindow ==
  (scen.method \in (PlainNM \cup SelectedNM) /\ ~plan.reject) =>
    LET P == IF scen.method \in SelectedNM THEN Rng(scen.names) ELSE Installed(scen)
        W == scen.n + scen.m
    IN \A i \in DOMAIN Starts :
         Cardinality({q \in P : Sal(q) > Sal(Starts[i].r)}) < W
NMBarrier ==
  (scen.method \in (PlainNM \cup SelectedNM)) =>
    \A i \in DOMAIN h : (h[i].ev = "start" /\ h[i].stage = 2) =>
       /\ Cardinality({j \in 1..(i-1) : h[j].ev = "end" /\ h[j].stage = 1}) = scen.n
       /\ ~scen.b => \A j \in 1..(i-1) : (h[j].ev = "end" /\ h[j].stage = 1) => h[j].out # "fail"
NMComplete ==
  (Done /\ scen.method \in (PlainNM \cup SelectedNM) /\ ~plan.reject /\ (scen.b \/ Failed = {})) =>
     Len(Starts) = scen.n + scen.m
\* C13
DagBarrier ==
  scen.method = "ExecuteDAGModel" =>
    \A i, j \in DOMAIN h :
       (h[i].ev = "start" /\ h[j].ev = "start" /\ h[j].stage < h[i].stage) =>
          /\ j < i
          /\ \A f \in Failed : h[f].stage < h[i].stage => FALSE
DagOccurrences ==
  (Done /\ scen.method = "ExecuteDAGModel" /\ Failed = {}) =>
    \A r \in Installed(scen) :
       Cardinality(StartIdx(r)) =
         SumF([i \in DOMAIN scen.dag |-> Mult(scen.dag[i], r)], DOMAIN scen.dag)
\* C14
TagStops ==
  scen.method \in (TagMethods \ {"ExecuteMixModelWithStopTagDirect"}) =>
    \A e \in DOMAIN h : (h[e].ev = "end" /\ h[e].st) =>
       \A i \in DOMAIN h : i > e => h[i].ev # "start"
MixTagStops ==
  scen.method = "ExecuteMixModelWithStopTagDirect" =>
    \A e \in DOMAIN h : (h[e].ev = "end" /\ h[e].st /\ h[e].stage = 1) =>
       \A i \in DOMAIN h : i > e => h[i].ev # "start"
\* C11
ResultExact ==
  Done => DOMAIN result = {h[i].r : i \in {j \in DOMAIN h : h[j].ev = "end" /\ h[j].out = "ret"}}
ReturnAfterAll == Done => Total(nrun) = 0
\* every call can finish: from any running state some step is enabled
NoStuck == phase = "running" => (ENABLED MCNext)

=============================================================================
