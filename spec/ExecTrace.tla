------------------------------ MODULE ExecTrace ------------------------------
(***************************************************************************)
(* Trace specification: every line of trace.ndjson (recorded from the real *)
(* engine by harness/cmd/execdrv) must be one step of Exec.  Many sessions *)
(* are concatenated; a "session" line separates them.  The high-water mark *)
(* of consumed lines is kept in TLC register 1 (run with -workers 1).      *)
(***************************************************************************)
EXTENDS Exec, Json

CONSTANT CheckKeys   \* TRUE: the result map of every return event must equal Exec's (C11)

VARIABLE l
tvars == <<vars, l>>

Trace == ndJsonDeserialize("trace.ndjson")
Ev == Trace[l]

IsEvent(e) == l <= Len(Trace) /\ Trace[l].ev = e /\ l' = l + 1

RulesOf(e) ==
  [x \in {e.rules[i].name : i \in DOMAIN e.rules} |->
      e.rules[CHOOSE i \in DOMAIN e.rules : e.rules[i].name = x].sal]
ScenOf(e) == [method |-> e.method, rules |-> RulesOf(e), b |-> e.b, names |-> e.names,
              n |-> e.n, m |-> e.m, dag |-> e.dag]
KeysOf(e) ==
  [x \in {e.keys[i][1] : i \in DOMAIN e.keys} |->
      e.keys[CHOOSE i \in DOMAIN e.keys : e.keys[i][1] = x][2]]

TraceInit == Init /\ l = 1

TraceSession ==
  /\ IsEvent("session")
  /\ phase \in {"idle", "returned"}
  /\ phase' = "idle"
  /\ UNCHANGED <<scen, k, pool, nstart, nrun, sfail, nfail, tag, result, h>>

TraceBegin  == IsEvent("begin")  /\ BeginCore(ScenOf(Ev)) /\ UNCHANGED h
TraceStart  == IsEvent("start")  /\ StartCore(Ev.r) /\ UNCHANGED h
TraceEnd    == IsEvent("end")    /\ EndCore(Ev.r, Ev.out, Ev.val, Ev.st) /\ UNCHANGED h
TraceReturn == IsEvent("return") /\ ~Ev.panic /\ ReturnCore(Ev.err, IF CheckKeys THEN KeysOf(Ev) ELSE result) /\ UNCHANGED h

\* hook "result_write" (C19): the result map is written with the engine's lock held
TraceResWrite == IsEvent("reswrite") /\ Ev.locked = 1 /\ UNCHANGED vars

TraceProper == TraceSession \/ TraceBegin \/ TraceStart \/ TraceEnd \/ TraceReturn \/ TraceResWrite

\* Exec is deterministic once the event arguments are bound, so "no action
\* explains line l" is a property of the single state at position l.  The
\* rejected line is appended to TLC register 2 and validation resumes with
\* the next session (a rejected "session" line blames the session before it,
\* which ended without returning, and is then consumed normally).
NextSession(i) ==
  IF \E j \in (i+1)..Len(Trace) : Trace[j].ev = "session"
  THEN CHOOSE j \in (i+1)..Len(Trace) :
         /\ Trace[j].ev = "session"
         /\ \A m \in (i+1)..(j-1) : Trace[m].ev # "session"
  ELSE Len(Trace) + 1

TraceSkip ==
  /\ l <= Len(Trace)
  /\ ~ENABLED TraceProper
  /\ TLCSet(2, Append(TLCGet(2), l))
  /\ l' = IF Trace[l].ev = "session" THEN l ELSE NextSession(l)
  /\ scen' = NoScen /\ k' = 1 /\ pool' = {} /\ nstart' = <<>> /\ nrun' = <<>>
  /\ sfail' = 0 /\ nfail' = 0 /\ tag' = FALSE /\ result' = <<>> /\ phase' = "idle"
  /\ UNCHANGED h

TraceNext == TraceProper \/ TraceSkip

TraceSpec == TraceInit /\ [][TraceNext]_tvars

\* high-water mark (evaluated as a state constraint on every state found)
Mark == TLCSet(1, Max2(TLCGet(1), l))
HWInit == TLCSet(1, 1) /\ TLCSet(2, <<>>)
ASSUME HWInit

TraceAccepted ==
  /\ JsonSerialize("result.json", [hwm |-> TLCGet(1), len |-> Len(Trace), rej |-> TLCGet(2)])
  /\ TLCGet(1) = Len(Trace) + 1
=============================================================================
