------------------------------ MODULE ExecTrace ------------------------------
(***************************************************************************)
(* Trace specification: every line of trace.ndjson (recorded from the real *)
(* engine by harness/cmd/execdrv) must be one step of Exec.  Many sessions *)
(* are concatenated; a "session" line separates them.  The high-water mark *)
(* of consumed lines is kept in TLC register 1 (run with -workers 1).      *)
(***************************************************************************)
EXTENDS Exec, Json

CONSTANT CheckKeys   \* TRUE: the result map of every return event must equal Exec's (C11)

VARIABLES l,     \* position in the trace
          ph, ps \* history and scenario of the previous completed call of the session (twin comparison, C14)
tvars == <<vars, l, ph, ps>>

Trace == ndJsonDeserialize("trace.ndjson")
Ev == Trace[l]

IsEvent(e) == l <= Len(Trace) /\ Trace[l].ev = e /\ l' = l + 1

RulesOf(e) ==
  [x \in {e.rules[i].name : i \in DOMAIN e.rules} |->
      e.rules[CHOOSE i \in DOMAIN e.rules : e.rules[i].name = x].sal]
ScenOf(e) == [method |-> e.method, rules |-> RulesOf(e), b |-> e.b, names |-> e.names,
              n |-> e.n, m |-> e.m, dag |-> e.dag]
KeysOf(e) ==
  [x \in {e.keys[i][1] : i \in DOMAIN e.keys} |->
      e.keys[CHOOSE i \in DOMAIN e.keys : e.keys[i][1] = x][2]]

TraceInit == Init /\ l = 1 /\ ph = <<>> /\ ps = NoScen

\* C14: "if the tag is never set, behaviour is identical to the corresponding variant without a tag".  A call whose
\* begin event carries twin = TRUE repeats the previous call of its session (same rules, arguments and rule outcomes)
\* through the stop-tag variant of the previous call's method; its history must then be the previous call's history.
NoTagOf == ("ExecuteWithStopTagDirect" :> "Execute")
        @@ ("ExecuteMixModelWithStopTagDirect" :> "ExecuteMixModel")
        @@ ("ExecuteSelectedRulesWithControlAndStopTag" :> "ExecuteSelectedRulesWithControl")
        @@ ("ExecuteSelectedRulesWithControlAndStopTagAsGivenSortedName" :> "ExecuteSelectedRulesWithControlAsGivenSortedName")
EndsOf(hist) == {hist[i] : i \in {j \in DOMAIN hist : hist[j].ev = "end"}}
TwinOK(isTwin) ==
  (isTwin /\ ~tag) =>
     /\ scen.method \in DOMAIN NoTagOf
     /\ ps = [scen EXCEPT !.method = NoTagOf[scen.method]]
     /\ IF scen.method = "ExecuteMixModelWithStopTagDirect"
        THEN /\ EndsOf(h) = EndsOf(ph) /\ Len(h) = Len(ph)
             /\ h # <<>> => h[1] = ph[1]
        ELSE h = ph

TraceSession ==
  /\ IsEvent("session")
  /\ phase \in {"idle", "returned"}
  /\ phase' = "idle"
  /\ h' = <<>> /\ ph' = <<>> /\ ps' = NoScen
  /\ UNCHANGED <<scen, k, pool, nstart, nrun, sfail, nfail, tag, result>>

TraceBegin  == /\ IsEvent("begin")  /\ BeginCore(ScenOf(Ev)) /\ h' = <<>>
               /\ ph' = IF phase = "returned" THEN h ELSE <<>>
               /\ ps' = IF phase = "returned" THEN scen ELSE NoScen
TraceStart  == /\ IsEvent("start")  /\ StartCore(Ev.r)
               /\ h' = Append(h, [ev |-> "start", r |-> Ev.r, out |-> ""]) /\ UNCHANGED <<ph, ps>>
\* the driver's script for this execution of the rule ("want": what the rule text and the data make it do) against
\* what the rule did: a rule scripted to return reaches its return statement, a rule scripted to fail fails
WantOK(e) == CASE e.want = "ret"    -> e.out = "ret" /\ e.val # "nil"
               [] e.want = "retnil" -> e.out = "ret" /\ e.val = "nil"
               [] e.want \in {"fail", "failret", "topfail", "fault"} -> e.out = "fail"
               [] e.want \in {"ok", ""} -> e.out \in {"ok", "ret"}
               [] OTHER -> TRUE
TraceEnd    == /\ IsEvent("end")    /\ EndCore(Ev.r, Ev.out, Ev.val, Ev.st) /\ WantOK(Ev)
               /\ h' = Append(h, [ev |-> "end", r |-> Ev.r, out |-> Ev.out]) /\ UNCHANGED <<ph, ps>>
TraceReturn == /\ IsEvent("return") /\ ~Ev.panic /\ ReturnCore(Ev.err, IF CheckKeys THEN KeysOf(Ev) ELSE result)
               /\ TwinOK(Ev.twin) /\ UNCHANGED <<h, ph, ps>>

\* hook "result_write" (C19): the result map is written with the engine's lock held
TraceResWrite == IsEvent("reswrite") /\ Ev.locked = 1 /\ UNCHANGED <<vars, ph, ps>>

\* end of a session: a result map handed back earlier is compared with the copy taken when its call returned
\* ("nothing from an earlier call survives" also means that a later call does not write into an earlier map)
TraceFrozen == IsEvent("frozen") /\ Ev.same /\ phase \in {"idle", "returned"} /\ UNCHANGED <<vars, ph, ps>>

TraceProper == TraceSession \/ TraceBegin \/ TraceStart \/ TraceEnd \/ TraceReturn \/ TraceResWrite \/ TraceFrozen

\* Exec is deterministic once the event arguments are bound, so "no action
\* explains line l" is a property of the single state at position l.  The
\* rejected line is appended to TLC register 2 and validation resumes with
\* the next session (a rejected "session" line blames the session before it,
\* which ended without returning, and is then consumed normally).
NextSession(i) ==
  IF \E j \in (i+1)..Len(Trace) : Trace[j].ev = "session"
  THEN CHOOSE j \in (i+1)..Len(Trace) :
         /\ Trace[j].ev = "session"
         /\ \A m \in (i+1)..(j-1) : Trace[m].ev # "session"
  ELSE Len(Trace) + 1

TraceSkip ==
  /\ l <= Len(Trace)
  /\ ~ENABLED TraceProper
  /\ TLCSet(2, Append(TLCGet(2), l))
  /\ l' = IF Trace[l].ev = "session" THEN l ELSE NextSession(l)
  /\ scen' = NoScen /\ k' = 1 /\ pool' = {} /\ nstart' = <<>> /\ nrun' = <<>>
  /\ sfail' = 0 /\ nfail' = 0 /\ tag' = FALSE /\ result' = <<>> /\ phase' = "idle"
  /\ h' = <<>> /\ ph' = <<>> /\ ps' = NoScen

TraceNext == TraceProper \/ TraceSkip

TraceSpec == TraceInit /\ [][TraceNext]_tvars

\* high-water mark (evaluated as a state constraint on every state found)
Mark == TLCSet(1, Max2(TLCGet(1), l))
HWInit == TLCSet(1, 1) /\ TLCSet(2, <<>>)
ASSUME HWInit

TraceAccepted ==
  /\ JsonSerialize("result.json", [hwm |-> TLCGet(1), len |-> Len(Trace), rej |-> TLCGet(2)])
  /\ TLCGet(1) = Len(Trace) + 1
=============================================================================
