------------------------------- MODULE PoolGen -------------------------------
(***************************************************************************)
(* Scenario generators for the pool (constant level, written as ndjson):   *)
(*   capacity : pool size x burst size x which requests fail / panic       *)
(*   manage   : every sequence of <= GOps management operations            *)
(*   updates  : update kind x execution method x where the update lands    *)
(*   isolation: histories of requests with their injected keys             *)
(***************************************************************************)
EXTENDS Integers, Sequences, FiniteSets, TLC, Json, SequencesExt

CONSTANTS GOps, GBurst, GIso

Pools == {<<1, 2>>, <<2, 3>>, <<1, 3>>, <<2, 4>>}
Fails == {"", "boom", "cond", "nilstag", "concboom"}
Capacity ==
  {[min |-> p[1], max |-> p[2], fails |-> f] :
      p \in Pools, f \in UNION {[1..k -> Fails] : k \in 1..GBurst}}

MOps == {"fullA", "fullB", "incrNew", "incrRepl", "incrReplNew", "incrSal", "removeHas", "removeAbsent", "removeNone", "removeTwo",
         "clear", "model1", "model2", "model3", "model4", "model9", "badfull", "badincr"}
Manage == {[min |-> 1, max |-> 2, ops |-> s] : s \in UNION {[1..k -> MOps] : k \in 1..GOps}}

UKinds == {"fullSame", "fullOther", "incrRepl", "incrKeepSal", "incrNew", "remove", "removeEnds", "clear"}
UMethods == {"Execute", "ExecuteConcurrent", "ExecuteMixModel", "ExecuteInverseMixModel",
             "ExecuteNSortMConcurrent", "ExecuteNConcurrentMSort", "ExecuteNConcurrentMConcurrent",
             "ExecuteDAGModel", "ExecuteSelectedRules", "ExecuteSelectedRulesConcurrent",
             "ExecuteSelectedRulesMixModel", "ExecuteSelectedRulesInverseMixModel",
             "ExecuteSelectedRulesWithControlAsGivenSortedName", "em", "emMulti", "emSelected"}
Updates ==
  {[kind |-> k, method |-> m, where |-> w, pool |-> p] :
      k \in UKinds, m \in UMethods, w \in {"inrule1", "inrule2", "inrule3", "racing", "after"}, p \in {<<1, 2>>, <<2, 3>>}}

Keys == {"ka", "kb", "kc"}
Isolation ==
  {[min |-> p[1], max |-> p[2], keys |-> ks, par |-> c] :
      p \in {<<1, 2>>, <<2, 3>>}, ks \in UNION {[1..k -> Keys] : k \in 2..GIso}, c \in {1, 2, 3}}

ASSUME /\ ndJsonSerialize("gen-capacity.ndjson", SetToSeq(Capacity))
       /\ ndJsonSerialize("gen-manage.ndjson", SetToSeq(Manage))
       /\ ndJsonSerialize("gen-updates.ndjson", SetToSeq(Updates))
       /\ ndJsonSerialize("gen-isolation.ndjson", SetToSeq(Isolation))
VARIABLE dummy
GSpec == dummy = 0 /\ [][UNCHANGED dummy]_dummy
=============================================================================
