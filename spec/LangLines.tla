------------------------------ MODULE LangLines ------------------------------
(***************************************************************************)
(* C20: error messages cite the line of the construct that failed.         *)
(*                                                                         *)
(* A rule text is a sequence of lines.  This module lays out texts with    *)
(* exactly one faulty construct: some leading blank / comment lines, some  *)
(* preceding healthy rules, the rule with filler statements, an enclosing  *)
(* statement kind, and the faulty statement either on one line or split    *)
(* over two lines so that the failing construct starts on a later line     *)
(* than its statement.  From the layout the specification computes         *)
(*   fault : the 1-based line on which the failing construct starts        *)
(*   stmt  : the line on which its statement starts                        *)
(* A cited line must be `fault` (or, for wrapped messages, `stmt`); the    *)
(* classes marked `always` must cite `fault`.                              *)
(***************************************************************************)
EXTENDS Integers, Sequences, FiniteSets, TLC, Json, SequencesExt

\* faulty statements: <<class, always, head, tail, faultOnTail>>
\* single-line layout: head \o " " \o tail on one line; split layout: two lines.
\* faultOnTail: the failing construct starts in the tail (TRUE) or is the statement itself (FALSE)
Faults == {
  <<"arith",  TRUE,  "x =", "1 + \"s\"", TRUE>>,
  <<"arith",  TRUE,  "return", "2 * \"s\"", TRUE>>,
  <<"arith",  TRUE,  "ev(", "3 - \"s\")", TRUE>>,
  <<"arith",  TRUE,  "x =", "7 / 0", TRUE>>,
  \* zero divisors of every class taken from injected data (uz unsigned, iz signed, fz float)
  <<"arith",  TRUE,  "x =", "7 / uz", TRUE>>,
  <<"arith",  TRUE,  "return", "7 / uz", TRUE>>,
  <<"arith",  TRUE,  "return", "7 / iz", TRUE>>,
  <<"arith",  TRUE,  "ev(", "2.5 / fz)", TRUE>>,
  <<"cmp",    TRUE,  "x =", "1 < \"s\"", TRUE>>,
  <<"cmp",    TRUE,  "return", "\"s\" == 1", TRUE>>,
  <<"logic",  TRUE,  "x =", "1 && true", TRUE>>,
  <<"logic",  TRUE,  "ev(", "true || \"s\")", TRUE>>,
  <<"call",   TRUE,  "x =", "boom()", TRUE>>,
  <<"call",   TRUE,  "", "boom()", TRUE>>,
  <<"call",   TRUE,  "", "nosuchfn(1)", TRUE>>,
  \* the callee's own failure text looks like a position ("line 1 of the feed ..."): the call still cites ITS line
  <<"call",   TRUE,  "", "boomline()", TRUE>>,
  <<"call",   TRUE,  "x =", "obj.BoomLine()", TRUE>>,
  <<"call",   TRUE,  "", "obj.Boom()", TRUE>>,
  <<"call",   TRUE,  "x =", "obj.NoSuch()", TRUE>>,
  <<"call",   TRUE,  "", "obj.In.Boom()", TRUE>>,
  <<"assign", TRUE,  "obj.I8 =", "\"s\"", FALSE>>,
  <<"assign", TRUE,  "arr[9] =", "1", FALSE>>,
  <<"assign", TRUE,  "obj.I8 +=", "\"s\"", FALSE>>,
  <<"assign", TRUE,  "obj.NoField =", "1", FALSE>>,
  <<"undef",  FALSE, "x =", "nosuch + 1", TRUE>>,
  <<"notbool", FALSE, "x =", "!1", TRUE>>,
  <<"index",  FALSE, "x =", "arr[9]", TRUE>>,
  <<"mapkey", FALSE, "x =", "arr[nokey]", TRUE>>,
  <<"mapkey", FALSE, "ev(", "m[nokey])", TRUE>>,
  <<"range",  FALSE, "forRange k := nosuch {", "}", FALSE>>,
  <<"range",  FALSE, "forRange k := obj {", "}", FALSE>> }

CondFaults == {       \* faults inside the condition of an if / else-if / for
  <<"arith", TRUE, "7 / uz > 1">>, <<"arith", TRUE, "7 / iz > 1">>, <<"arith", TRUE, "1.5 / fz > 1">>,
  <<"arith", TRUE, "1 + \"s\" > 0">>, <<"cmp", TRUE, "1 < \"s\"">>, <<"logic", TRUE, "1 && true">>,
  <<"call", TRUE, "boom()">>, <<"condnotbool", FALSE, "1">> }

Encl == {"top", "if", "elseif", "else", "for", "range", "ifInFor", "conc"}

Healthy(n) == <<"rule \"h" \o ToString(n) \o "\" \"d\" salience " \o ToString(n), "begin", "  y = " \o ToString(n), "end">>
RECURSIVE Pre(_)
Pre(n) == IF n = 0 THEN <<>> ELSE Pre(n - 1) \o Healthy(n)
Lead(k) == CASE k = 0 -> <<>> [] k = 1 -> <<"">> [] k = 2 -> <<"// a comment", "">> [] k = 3 -> <<"", "", "// c">>
Filler(k) == CASE k = 0 -> <<>> [] k = 1 -> <<"  y = 1">> [] k = 2 -> <<"  y = 1", "  // note", "  z = y + 1">>

Open(e) == CASE e = "top" -> <<>>
             [] e = "if" -> <<"  if true {">>
             [] e = "elseif" -> <<"  if false {", "    y = 2", "  } else if true {">>
             [] e = "else" -> <<"  if false {", "  } else {">>
             [] e = "for" -> <<"  for i = 0; i < 2; i += 1 {">>
             [] e = "range" -> <<"  forRange r := arr {">>
             [] e = "ifInFor" -> <<"  for i = 0; i < 1; i += 1 {", "    if i == 0 {">>
             [] e = "conc" -> <<"  conc {">>
Close(e) == CASE e = "top" -> <<>> [] e = "ifInFor" -> <<"    }", "  }">> [] OTHER -> <<"  }">>

\* statement layouts
StmtLines(f, split) ==
  IF split /\ f[3] # "" THEN <<"    " \o f[3], "      " \o f[4]>>
  ELSE <<"    " \o (IF f[3] = "" THEN f[4] ELSE f[3] \o " " \o f[4])>>

\* echo: the text of the faulty statement also occurs earlier in the same rule, in a branch that is never executed
\* (the cited line is the line of the construct that FAILED, not of a construct that looks the same)
Echo(on, txt) == IF on THEN <<"  if false {", "    " \o txt, "  }">> ELSE <<>>
OneLine(f) == IF f[3] = "" THEN f[4] ELSE f[3] \o " " \o f[4]

Layout(lead, pre, fill, e, f, split, echo) ==
  LET head == Lead(lead) \o Pre(pre) \o <<"rule \"faulty\" \"d\"", "begin">> \o Filler(fill) \o Echo(echo, OneLine(f)) \o Open(e)
      st == StmtLines(f, split)
      stmtLine == Len(head) + 1
      faultLine == IF f[5] /\ Len(st) = 2 THEN stmtLine + 1 ELSE stmtLine
  IN [lines |-> head \o st \o Close(e) \o <<"end">>, fault |-> faultLine, stmt |-> stmtLine,
      class |-> f[1], always |-> f[2], encl |-> e, split |-> split, echo |-> echo, pad |-> 0]

\* a fault inside a condition: the condition on the statement's line or on the next one
CondLayout(lead, pre, fill, kind, c, split, echo) ==
  LET head == Lead(lead) \o Pre(pre) \o <<"rule \"faulty\" \"d\"", "begin">> \o Filler(fill) \o Echo(echo, "if " \o c[3] \o " { }")
      kw == CASE kind = "if" -> <<"  if">> [] kind = "elseif" -> <<"  if false {", "  } else if">>
              [] kind = "for" -> <<"  for i = 0;">>
      tailtxt == IF kind = "for" THEN c[3] \o "; i += 1 {" ELSE c[3] \o " {"
      stmtLine == Len(head) + Len(kw)
      body == IF split THEN SubSeq(kw, 1, Len(kw)) \o <<"      " \o tailtxt>>
              ELSE SubSeq(kw, 1, Len(kw) - 1) \o <<kw[Len(kw)] \o " " \o tailtxt>>
  IN [lines |-> head \o body \o <<"    y = 3", "  }", "end">>,
      fault |-> IF split THEN stmtLine + 1 ELSE stmtLine, stmt |-> stmtLine,
      class |-> c[1], always |-> c[2], encl |-> "cond-" \o kind, split |-> split, echo |-> echo, pad |-> 0]

CONSTANTS GLead, GPre, GFill,
          GFar      \* numbers of blank lines in front of the whole text (the text is `pad` empty lines, then `lines`)
\* the same layout pushed down by n lines: "any line" includes lines beyond 2^16
Shift(c, n) == [c EXCEPT !.fault = @ + n, !.stmt = @ + n, !.pad = n]
Near ==
  {Layout(0, 0, 0, e, f, FALSE, FALSE) : e \in Encl, f \in Faults}
  \cup {CondLayout(0, 0, 0, k, c, FALSE, FALSE) : k \in {"if", "elseif", "for"}, c \in CondFaults}
FarCases == {Shift(c, n) : c \in Near, n \in GFar}
Cases0 ==
  {Layout(l, p, fl, e, f, sp, ec) : l \in GLead, p \in GPre, fl \in GFill, e \in Encl, f \in Faults, sp \in BOOLEAN, ec \in BOOLEAN}
  \cup {CondLayout(l, p, fl, k, c, sp, ec) : l \in GLead, p \in GPre, fl \in GFill, k \in {"if", "elseif", "for"}, c \in CondFaults,
                                            sp \in BOOLEAN, ec \in BOOLEAN}

Cases == Cases0 \cup FarCases

\* sanity of the layout arithmetic, checked on every case: the fault line holds the fault text
LayoutSane == \A c \in Cases : (c.fault - c.pad) \in DOMAIN c.lines /\ c.stmt <= c.fault /\ c.fault <= c.stmt + 1
ASSUME LayoutSane
ASSUME ndJsonSerialize("gen.ndjson", SetToSeq(Cases))
VARIABLE dummy
GSpec == dummy = 0 /\ [][UNCHANGED dummy]_dummy
=============================================================================
