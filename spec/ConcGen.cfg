SPECIFICATION CSpec
CHECK_DEADLOCK FALSE
CONSTANTS
  CKinds <- Kinds5
  CMaxChildren = 3
  CMaxBlocks = 1
