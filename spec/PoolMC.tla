-------------------------------- MODULE PoolMC --------------------------------
(***************************************************************************)
(* Bounded model of Pool for TLC: a few requests and one updater, every    *)
(* interleaving.  The execution of a request is split into its container   *)
(* reads: with Pinned = TRUE the request pins the rule set of its instance *)
(* when it pops it (the intended design); with Pinned = FALSE every stage  *)
(* re-reads the instance's rule set (the code as found), which lets TLC    *)
(* exhibit the torn execution.                                             *)
(***************************************************************************)
EXTENDS Pool

CONSTANTS Reqs, MCMin, MCMax, Pinned, MCUpdates, MCStages

VARIABLES pin,     \* [request -> rule set pinned at pop]
          stage    \* [request -> number of stages run]
mcvars == <<pvars, pin, stage>>

RulesV(v) == <<[name |-> "r1", tag |-> 100 * v + 1], [name |-> "r2", tag |-> 100 * v + 2]>>
Names2 == {"r1", "r2"}
StageNames(k) == IF k = 1 THEN {"r1"} ELSE {"r2"}

MCInit ==
  /\ pmin = MCMin /\ pmax = MCMax /\ free = 0..(MCMax - 1)
  /\ holder = [i \in 0..(MCMax - 1) |-> None] /\ transit = {}
  /\ dc = [i \in 0..(MCMax - 1) |-> <<>>] /\ rq = <<>>
  /\ cur = AsTags(RulesV(1)) /\ cleared = FALSE
  /\ inst = [i \in 0..(MCMax - 1) |-> AsTags(RulesV(1))]
  /\ vers = <<AsTags(RulesV(1))>> /\ done = 1 /\ pend = NoPend /\ model = 1 /\ upq = <<>> /\ fin = <<>>
  /\ pin = <<>> /\ stage = <<>>

Arrive(q) == /\ ArriveCore(q, {"req"}, <<"*">>, FALSE, FALSE, "none")
             /\ pin' = pin /\ stage' = (q :> 0) @@ stage
Pop(q) == \E i \in Insts : /\ PopCore(q, i, Cardinality(SameList(i, free \ {i})))
                           /\ pin' = (q :> inst[i]) @@ pin /\ UNCHANGED stage
\* one stage of the execution: runs the rules of that stage as the container read yields them
RunStage(q) ==
  /\ q \in DOMAIN rq /\ rq[q].st = "holding" /\ stage[q] < MCStages
  /\ LET k == stage[q] + 1
         src == IF Pinned THEN pin[q] ELSE inst[rq[q].inst]
         names == IF MCStages = 1 THEN Names2 ELSE StageNames(k)
         got == Restrict(src, names)
     IN /\ rq' = [rq EXCEPT ![q].ran = got @@ @]
        /\ stage' = [stage EXCEPT ![q] = k]
  /\ UNCHANGED <<pmin, pmax, free, holder, transit, dc, cur, cleared, inst, vers, done, pend, model, upq, fin, pin>>
Return(q) == /\ q \in DOMAIN rq /\ rq[q].st = "holding" /\ stage[q] = MCStages
             /\ ReturnCore(q, FALSE, <<>>, FALSE)
             /\ UNCHANGED <<pin, stage>>
\* the release as the implementation does it: the data is dropped, then the instance handed back, then the call returns
Clear(q) == /\ q \in DOMAIN rq /\ rq[q].st = "holding" /\ stage[q] = MCStages
            /\ ClearCore(q, rq[q].inst) /\ UNCHANGED <<pin, stage>>
Put(q) == /\ q \in DOMAIN rq /\ rq[q].st = "holding" /\ stage[q] = MCStages
          /\ PutCore(q, rq[q].inst) /\ UNCHANGED <<pin, stage>>
ReturnPut(q) == /\ q \in DOMAIN rq /\ rq[q].st = "pushed"
                /\ ReturnCore(q, FALSE, <<>>, FALSE)
                /\ UNCHANGED <<pin, stage>>
Push == \E i \in transit : PushCore(i, Cardinality(SameList(i, free \cup {i}))) /\ UNCHANGED <<pin, stage>>

Upd == \/ /\ done + (IF pend.kind = "none" THEN 0 ELSE 1) <= MCUpdates
          /\ \E k \in {"full", "incr"} : UpdBeginCore(k, RulesV(done + 1), <<>>)
          /\ UNCHANGED <<pin, stage>>
       \/ PublishCore /\ UNCHANGED <<pin, stage>>
       \/ UpdEndCore(TRUE) /\ UNCHANGED <<pin, stage>>

\* management calls made at once: up to MCUpdates callers, serialised only by the hand-over rule of Inside(u)
Called == (done - 1) + Cardinality(DOMAIN upq) + (IF pend.kind = "none" THEN 0 ELSE 1)
UpdU == \E u \in 1..MCUpdates :
          \/ /\ u = Called + 1          \* at most MCUpdates calls in all, numbered in the order they are made
             /\ \E k \in {"full", "incr"} : UpdCallCore(u, k, RulesV(u + 1), <<>>) /\ UNCHANGED <<pin, stage>>
          \/ PublishCoreU(u) /\ UNCHANGED <<pin, stage>>
          \/ UpdEndCoreU(u, TRUE) /\ UNCHANGED <<pin, stage>>

MCNext == \/ \E q \in Reqs : Arrive(q) \/ Pop(q) \/ RunStage(q) \/ Return(q)
          \/ Push \/ Upd
\* ... with the release in the implementation's three steps (clear, put, return) instead of one
MCNextR == MCNext \/ \E q \in Reqs : Clear(q) \/ Put(q) \/ ReturnPut(q)
MCSpecR == MCInit /\ [][MCNextR]_mcvars
MCNextU == \/ \E q \in Reqs : Arrive(q) \/ Pop(q) \/ RunStage(q) \/ Return(q)
           \/ Push \/ UpdU
MCSpecU == MCInit /\ [][MCNextU]_mcvars
MCSpec == MCInit /\ [][MCNext]_mcvars
MCFair == MCSpec /\ WF_mcvars(Push) /\ \A q \in Reqs : WF_mcvars(Pop(q) \/ RunStage(q) \/ Return(q))

\* C07 on the model: when a request returns, what it ran is one version of its window
OneVersion == \A q \in DOMAIN rq : (rq[q].st = "holding" /\ stage[q] = MCStages) => VersionOK(q)
\* C16 on the model: between updates every instance carries the denoted set
AgreeWhenIdle == pend.kind = "none" => \A i \in Insts : inst[i] = cur
\* ... with concurrent callers: nothing called, in progress or awaiting its logged return
AgreeWhenIdleU == (pend.kind = "none" /\ upq = <<>>) => \A i \in Insts : inst[i] = cur
\* a completed update (its return still to be logged) has published everywhere: every instance carries a version
\* that is at least as new as the oldest update still awaiting its return
NoTornPublish == \A i, j \in Insts : (inst[i] # inst[j]) => pend.kind # "none"
\* C17 liveness: every request that arrived returns
AllReturn == \A q \in Reqs : (q \in DOMAIN rq) ~> (q \in DOMAIN rq /\ rq[q].st = "returned")
=============================================================================
