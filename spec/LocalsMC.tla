------------------------------ MODULE LocalsMC ------------------------------
EXTENDS Locals
Ops == {[k |-> "W", name |-> "x"], [k |-> "R", name |-> "x"], [k |-> "H", name |-> ""],
        [k |-> "W", name |-> "y"], [k |-> "R", name |-> "y"],
        [k |-> "WI", name |-> "A"], [k |-> "RI", name |-> "A"]}
OpsL == {[k |-> "W", name |-> "x"], [k |-> "R", name |-> "x"], [k |-> "H", name |-> ""],
         [k |-> "R", name |-> "y"], [k |-> "W", name |-> "y"]}
OpsP == {[k |-> "WP", name |-> "gp"], [k |-> "RP", name |-> "gp"], [k |-> "W", name |-> "x"], [k |-> "R", name |-> "x"]}
Progs3P == UNION {[1..i -> OpsP] : i \in 0..3}
Progs2P == UNION {[1..i -> OpsP] : i \in 0..2}
Progs2 == UNION {[1..i -> Ops] : i \in 0..2}
Progs3L == UNION {[1..i -> OpsL] : i \in 0..3}
Progs2L == UNION {[1..i -> OpsL] : i \in 0..2}
Rules2 == {"r1", "r2"}
=============================================================================
