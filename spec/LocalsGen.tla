------------------------------ MODULE LocalsGen ------------------------------
(* Program generator for Locals: pairs of straight-line rule programs. *)
EXTENDS LocalsMC, Json, SequencesExt
CONSTANTS GProgsA, GProgsB
ASSUME ndJsonSerialize("gen.ndjson",
         SetToSeq({[rules |-> <<[name |-> "r1", ops |-> p1], [name |-> "r2", ops |-> p2]>>] :
                      p1 \in GProgsA, p2 \in GProgsB}))
=============================================================================
