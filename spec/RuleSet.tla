------------------------------- MODULE RuleSet -------------------------------
(***************************************************************************)
(* C08: the rule container under full builds, incremental builds and       *)
(* removals (builder/rule_builder.go).  Abstract state: a function from    *)
(* rule names to [sal, desc, ver]; ver identifies the compiled body (every *)
(* generated body echoes the version it was compiled with).                *)
(*                                                                         *)
(* After every operation the implementation's state is PROJECTED (sorted   *)
(* list, entity map keys, existence answers, a sort-model run echoing      *)
(* @name @sal @desc and the version) and must agree with the denotation.   *)
(* The arrangement of equal saliences is left open.                        *)
(***************************************************************************)
EXTENDS Integers, Sequences, FiniteSets, TLC

VARIABLES ents,    \* [name -> [sal, desc, ver]]
          rsh      \* history of operations (model checking only)
rsvars == <<ents, rsh>>

Rng(s) == {s[i] : i \in DOMAIN s}
AsFun(rules) ==   \* sequence of [name, sal, desc, ver] with distinct names -> function
  [x \in {rules[i].name : i \in DOMAIN rules} |->
     LET r == rules[CHOOSE i \in DOMAIN rules : rules[i].name = x]
     IN [sal |-> r.sal, desc |-> r.desc, ver |-> r.ver]]
Distinct(rules) == \A i, j \in DOMAIN rules : rules[i].name = rules[j].name => i = j

\* the denotation of one operation
Full(e, rules) == AsFun(rules)
Incr(e, rules) == AsFun(rules) @@ e            \* new bindings take precedence
Remove(e, names) == [x \in (DOMAIN e) \ Rng(names) |-> e[x]]

\* kind \in {"full","incr","remove"}; ok = the call reported success
ROpCore(kind, rules, names, ok) ==
  CASE kind = "full"   -> /\ ok = (Len(rules) > 0 /\ Distinct(rules))
                          /\ ents' = IF ok THEN Full(ents, rules) ELSE ents
    [] kind = "incr"   -> /\ ok = (Len(rules) > 0 /\ Distinct(rules))
                          /\ ents' = IF ok THEN Incr(ents, rules) ELSE ents
    [] kind = "remove" -> /\ ok = (Len(names) > 0)
                          /\ ents' = IF ok THEN Remove(ents, names) ELSE ents
    [] kind = "bad"    -> /\ ok = FALSE        \* a text that does not compile
                          /\ ents' = ents

\* a listing (sorted list or run order) is a non-increasing arrangement of ents
Arrangement(seq, withVer) ==
  /\ Len(seq) = Cardinality(DOMAIN ents)
  /\ {seq[i].name : i \in DOMAIN seq} = DOMAIN ents
  /\ \A i \in DOMAIN seq :
        /\ seq[i].sal = ents[seq[i].name].sal
        /\ seq[i].desc = ents[seq[i].name].desc
        /\ withVer => seq[i].ver = ents[seq[i].name].ver
  /\ \A i, j \in DOMAIN seq : i < j => seq[i].sal >= seq[j].sal

RStateCore(sorted, keys, exist, run, runErr) ==
  /\ Arrangement(sorted, FALSE)
  /\ Rng(keys) = DOMAIN ents /\ Len(keys) = Cardinality(DOMAIN ents)
  /\ \A i \in DOMAIN exist : exist[i][2] = (exist[i][1] \in DOMAIN ents)
  /\ Arrangement(run, TRUE)
  /\ runErr = (DOMAIN ents = {})
  /\ UNCHANGED ents

-----------------------------------------------------------------------------
(* Model checking the algebra on a small alphabet: the denotation of a      *)
(* history never depends on how it is split into operations.               *)
CONSTANTS RSNames, RSSal, RSMaxOps

RSRules == UNION {[1..n -> [name : RSNames, sal : RSSal]] : n \in 1..2}
RSInit == ents = <<>> /\ rsh = <<>>
Mk(rules, v) == [i \in DOMAIN rules |-> [name |-> rules[i].name, sal |-> rules[i].sal, desc |-> "d", ver |-> v]]
RSNext ==
  /\ Len(rsh) < RSMaxOps
  /\ \/ \E rs \in RSRules, k \in {"full", "incr"} :
          /\ ROpCore(k, Mk(rs, Len(rsh) + 1), <<>>, Distinct(rs))
          /\ rsh' = Append(rsh, [kind |-> k, rules |-> rs])
     \/ \E ns \in UNION {[1..n -> RSNames] : n \in 0..2} :
          /\ ROpCore("remove", <<>>, ns, Len(ns) > 0)
          /\ rsh' = Append(rsh, [kind |-> "remove", names |-> ns])
RSSpec == RSInit /\ [][RSNext]_rsvars

\* from the statement: the last operation that mentioned a name decides it
LastMention(x) ==
  LET idx == {i \in DOMAIN rsh :
                 \/ rsh[i].kind = "full" /\ Distinct(rsh[i].rules)
                 \/ rsh[i].kind = "incr" /\ Distinct(rsh[i].rules) /\ x \in {rsh[i].rules[j].name : j \in DOMAIN rsh[i].rules}
                 \/ rsh[i].kind = "remove" /\ x \in Rng(rsh[i].names)}
  IN IF idx = {} THEN 0 ELSE CHOOSE i \in idx : \A j \in idx : j <= i
Denotes ==
  \A x \in RSNames :
     LET i == LastMention(x) IN
     IF i = 0 THEN x \notin DOMAIN ents
     ELSE IF rsh[i].kind = "remove" THEN x \notin DOMAIN ents
     ELSE IF x \in {rsh[i].rules[j].name : j \in DOMAIN rsh[i].rules}
          THEN x \in DOMAIN ents /\ ents[x].ver = i
               /\ ents[x].sal = rsh[i].rules[CHOOSE j \in DOMAIN rsh[i].rules : rsh[i].rules[j].name = x].sal
          ELSE x \notin DOMAIN ents     \* a full build that does not contain x
=============================================================================
