SPECIFICATION RSSpec
CHECK_DEADLOCK FALSE
CONSTANTS
  RSNames <- N3
  RSSal <- S2
  RSMaxOps = 3
INVARIANT Denotes
