----------------------------- MODULE LocalsTrace -----------------------------
(* Trace specification for Locals (events recorded by harness/cmd/bodydrv). *)
EXTENDS Locals, Json

VARIABLE l
Trace == ndJsonDeserialize("trace.ndjson")
Ev == Trace[l]
IsEvent(e) == l <= Len(Trace) /\ Trace[l].ev = e /\ l' = l + 1
Max2(a, b) == IF a >= b THEN a ELSE b

ProgOf(e) ==
  [x \in {e.rules[i].name : i \in DOMAIN e.rules} |->
      e.rules[CHOOSE i \in DOMAIN e.rules : e.rules[i].name = x].ops]

TraceInit == prog = <<>> /\ ex = <<>> /\ inj = <<>> /\ pin = <<>> /\ lh = <<>> /\ l = 1

TSession == IsEvent("session") /\ UNCHANGED lvars
TBegin   == IsEvent("lbegin") /\ LBeginCore(ProgOf(Ev)) /\ UNCHANGED lh
TStart   == IsEvent("estart") /\ EStartCore(Ev.e, Ev.r, Ev.q) /\ UNCHANGED lh
TOp      == IsEvent("eop") /\ EOpCore(Ev.e, Ev.i, Ev.val) /\ UNCHANGED lh
TEnd     == IsEvent("eend") /\ EEndCore(Ev.e) /\ UNCHANGED lh
TReturn  == IsEvent("lreturn") /\ ~Ev.panic /\ LReturnCore(Ev.q, Ev.err, Ev.gpv) /\ UNCHANGED lh
TPin     == IsEvent("lpin") /\ LPinCore(Ev.q) /\ UNCHANGED lh

TraceProper == TSession \/ TBegin \/ TStart \/ TOp \/ TEnd \/ TReturn \/ TPin

NextSession(i) ==
  IF \E j \in (i+1)..Len(Trace) : Trace[j].ev = "session"
  THEN CHOOSE j \in (i+1)..Len(Trace) :
         /\ Trace[j].ev = "session"
         /\ \A m \in (i+1)..(j-1) : Trace[m].ev # "session"
  ELSE Len(Trace) + 1

TraceSkip ==
  /\ l <= Len(Trace)
  /\ ~ENABLED TraceProper
  /\ TLCSet(2, Append(TLCGet(2), l))
  /\ l' = IF Trace[l].ev = "session" THEN l + 1 ELSE NextSession(l)
  /\ prog' = <<>> /\ ex' = <<>> /\ inj' = <<>> /\ pin' = <<>> /\ UNCHANGED lh

TraceNext == TraceProper \/ TraceSkip
TraceSpec == TraceInit /\ [][TraceNext]_<<lvars, l>>

Mark == TLCSet(1, Max2(TLCGet(1), l))
ASSUME TLCSet(1, 1) /\ TLCSet(2, <<>>)
TraceAccepted ==
  /\ JsonSerialize("result.json", [hwm |-> TLCGet(1), len |-> Len(Trace), rej |-> TLCGet(2)])
  /\ TLCGet(1) = Len(Trace) + 1
=============================================================================
