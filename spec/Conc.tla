-------------------------------- MODULE Conc --------------------------------
(***************************************************************************)
(* C18: a `conc { ... }` block runs each of its statements once, possibly  *)
(* in parallel (one goroutine per child in internal/base/conc_statement.go)*)
(* ; the statement after the block starts only after all of them finished  *)
(* and observes all their assignments; if a child fails the block fails    *)
(* after all of them have finished.                                        *)
(*                                                                         *)
(* A rule body is a sequence of blocks; block b is a sequence of children  *)
(* [id, kind \in {"asgL","asgI","func","meth","three","methL","asgML"},     *)
(* fails, val] (methL / asgML: a method of an object held in a rule local). The *)
(* statement after block b is the observer `after(b)` followed by one       *)
(* `see(c, value)` per assignment child c of the blocks passed so far.     *)
(* A block in `quiet` is followed directly by the next block (no statement *)
(* in between): the next block is then "the statement after the block".    *)
(* dups[b] = number of copies of one and the same uncounted statement      *)
(* (`obj.Bump()`) among the statements of block b: identical statements    *)
(* are statements of their own, each runs once; `after` reports the count. *)
(***************************************************************************)
EXTENDS Integers, Sequences, FiniteSets, TLC

VARIABLES blocks,   \* Seq(Seq(child))
          bi,       \* index of the current block
          cst,      \* [child id -> "idle" | "run" | "ok" | "fail"]
          cphase,   \* "idle" | "run" | "returned"
          quiet,    \* blocks followed directly by the next block
          dups,     \* [block -> copies of the identical uncounted statement in it]
          ch        \* history (model checking only)
cvars == <<blocks, bi, cst, cphase, quiet, dups, ch>>

Ids(b) == {blocks[b][i].id : i \in DOMAIN blocks[b]}
AllIds == UNION {Ids(b) : b \in DOMAIN blocks}
Child(c) == LET b == CHOOSE b \in DOMAIN blocks : c \in Ids(b)
                i == CHOOSE i \in DOMAIN blocks[b] : blocks[b][i].id = c
            IN blocks[b][i]
BlockOf(c) == CHOOSE b \in DOMAIN blocks : c \in Ids(b)
BlockDone(b) == \A c \in Ids(b) : cst[c] \in {"ok", "fail"}
BlockFailed(b) == \E c \in Ids(b) : cst[c] = "fail"

\* the blocks bi .. b-1 are behind us without an `after`: quiet, complete, none failed
Advance(b) == /\ b \in DOMAIN blocks /\ b >= bi
              /\ \A j \in bi..(b-1) : j \in quiet /\ BlockDone(j) /\ ~BlockFailed(j)
RECURSIVE SumTo(_, _)
SumTo(d, b) == IF b = 0 THEN 0 ELSE d[b] + SumTo(d, b - 1)

CBeginCore(bs, q, d) ==
  /\ cphase \in {"idle", "returned"}
  /\ Len(bs) \notin q /\ DOMAIN d = DOMAIN bs
  /\ blocks' = bs /\ bi' = 1 /\ cphase' = "run" /\ quiet' = q /\ dups' = d
  /\ cst' = [c \in UNION {{bs[b][i].id : i \in DOMAIN bs[b]} : b \in DOMAIN bs} |-> "idle"]

CStartCore(c) ==
  /\ cphase = "run" /\ c \in AllIds
  /\ Advance(BlockOf(c)) /\ cst[c] = "idle"
  /\ cst' = [cst EXCEPT ![c] = "run"]
  /\ bi' = BlockOf(c)
  /\ UNCHANGED <<blocks, cphase, quiet, dups>>

\* out is what the child did: it failed iff the scenario says so
CEndCore(c, out) ==
  /\ cphase = "run" /\ c \in DOMAIN cst /\ cst[c] = "run"
  /\ out = (IF Child(c).fails THEN "fail" ELSE "ok")
  /\ cst' = [cst EXCEPT ![c] = out]
  /\ UNCHANGED <<blocks, bi, cphase, quiet, dups>>

\* the statement after block b runs; bumps = how often the identical statements of the blocks so far have run
CAfterCore(b, bumps) ==
  /\ cphase = "run" /\ Advance(b) /\ b \notin quiet
  /\ BlockDone(b) /\ ~BlockFailed(b)
  /\ bumps = SumTo(dups, b)
  /\ bi' = b + 1
  /\ UNCHANGED <<blocks, cst, cphase, quiet, dups>>

\* a statement after c's block observes the value of c's assignment target
CSeeCore(c, v) ==
  /\ cphase = "run" /\ c \in DOMAIN cst
  /\ BlockOf(c) < bi
  /\ Child(c).kind \in {"asgL", "asgI", "asgML"}
  /\ v = Child(c).val
  /\ UNCHANGED <<blocks, bi, cst, cphase, quiet, dups>>

CReturnCore(err) ==
  /\ cphase = "run"
  /\ \A c \in DOMAIN cst : cst[c] # "run"
  /\ \/ /\ bi = Len(blocks) + 1 /\ err = FALSE
     \/ /\ bi \in DOMAIN blocks /\ BlockDone(bi) /\ BlockFailed(bi) /\ err = TRUE
  /\ cphase' = "returned"
  /\ UNCHANGED <<blocks, bi, cst, quiet, dups>>

-----------------------------------------------------------------------------
CONSTANTS CKinds, CMaxChildren, CMaxBlocks

ChildIds == {"c1", "c2", "c3", "c4", "c5", "c6"}
\* children of a rule body get the ids c1, c2, ... in order
BlockShapes == UNION {[1..n -> CKinds \X BOOLEAN] : n \in 0..CMaxChildren}
MkBlocks(shapes) ==
  LET off(b) == IF b = 1 THEN 0 ELSE LET RECURSIVE S(_) S(j) == IF j = 0 THEN 0 ELSE Len(shapes[j]) + S(j-1) IN S(b-1)
  IN [b \in DOMAIN shapes |->
        [i \in DOMAIN shapes[b] |->
           [id |-> CHOOSE c \in ChildIds : c = "c" \o ToString(off(b) + i),
            kind |-> shapes[b][i][1], fails |-> shapes[b][i][2], val |-> 10 * b + i]]]
CScenarios ==
  {MkBlocks(s) : s \in UNION {[1..n -> BlockShapes] : n \in 1..CMaxBlocks}}

CInit == blocks = <<>> /\ bi = 1 /\ cst = <<>> /\ cphase = "idle" /\ quiet = {} /\ dups = <<>> /\ ch = <<>>
CNext ==
  \/ cphase = "idle" /\ \E bs \in CScenarios :
        /\ Cardinality(UNION {{bs[b][i].id : i \in DOMAIN bs[b]} : b \in DOMAIN bs}) <= 6
        /\ \E q \in SUBSET (1..(Len(bs) - 1)) : CBeginCore(bs, q, [b \in DOMAIN bs |-> 0])
        /\ ch' = <<>>
  \/ \E c \in DOMAIN cst : CStartCore(c) /\ ch' = Append(ch, [ev |-> "cstart", c |-> c])
  \/ \E c \in DOMAIN cst, out \in {"ok", "fail"} :
        CEndCore(c, out) /\ ch' = Append(ch, [ev |-> "cend", c |-> c, out |-> out])
  \/ \E b \in DOMAIN blocks : CAfterCore(b, 0) /\ ch' = Append(ch, [ev |-> "after", b |-> b])
  \/ \E err \in BOOLEAN : CReturnCore(err) /\ ch' = Append(ch, [ev |-> "ret", err |-> err])
CSpec == CInit /\ [][CNext]_cvars

\* from the statement, over the history
JoinBarrier ==
  \A j \in DOMAIN ch : ch[j].ev = "after" =>
     \A c \in Ids(ch[j].b) : \E e \in 1..(j-1) : ch[e].ev = "cend" /\ ch[e].c = c
OnceEach ==
  \A c \in DOMAIN cst : Cardinality({j \in DOMAIN ch : ch[j].ev = "cstart" /\ ch[j].c = c}) <= 1
\* a child of a later block starts only when every child of every earlier block has ended - with an `after`
\* statement in between (not quiet) that statement has run as well
NextBlockAfter ==
  \A j \in DOMAIN ch : (ch[j].ev = "cstart" /\ BlockOf(ch[j].c) > 1) =>
     /\ \A p \in 1..(BlockOf(ch[j].c) - 1) : \A c \in Ids(p) :
           \E e \in 1..(j-1) : ch[e].ev = "cend" /\ ch[e].c = c /\ ch[e].out = "ok"
     /\ (BlockOf(ch[j].c) - 1) \notin quiet =>
           \E a \in 1..(j-1) : ch[a].ev = "after" /\ ch[a].b = BlockOf(ch[j].c) - 1
FailAfterAll ==
  \A j \in DOMAIN ch : (ch[j].ev = "ret" /\ ch[j].err) =>
     /\ \E e \in 1..(j-1) : ch[e].ev = "cend" /\ ch[e].out = "fail"
     /\ \A s \in 1..(j-1) : ch[s].ev = "cstart" =>
           \E e \in (s+1)..(j-1) : ch[e].ev = "cend" /\ ch[e].c = ch[s].c
NoAfterOnFailure ==
  \A j \in DOMAIN ch : ch[j].ev = "after" =>
     \A e \in 1..(j-1) : (ch[e].ev = "cend" /\ ch[e].c \in Ids(ch[j].b)) => ch[e].out = "ok"
CanFinish == cphase = "run" => ENABLED CNext
=============================================================================
