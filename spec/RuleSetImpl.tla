----------------------------- MODULE RuleSetImpl -----------------------------
(***************************************************************************)
(* The incremental build as IMPLEMENTED (builder/rule_builder.go           *)
(* BuildRuleWithIncremental and engine/gengine_pool.go updateIncremental): *)
(* Go slices over an explicit heap of arrays, the shadowed inner slice of  *)
(* the changed-salience branch (`newSortRules := append(..)` declares a    *)
(* new variable, the outer slice header is never updated), the binary      *)
(* search whose outer `mid` is never assigned, the live index map that is  *)
(* updated inside the loop, nondeterministic iteration order over the new  *)
(* rules and a nondeterministic growth policy of `append`.                 *)
(*                                                                         *)
(* Checked by TLC for every sorted container of <= MaxOld rules, every     *)
(* incremental text of <= MaxNew rules, every processing order and every   *)
(* growth slack: the result is a non-increasing arrangement of exactly the *)
(* rule set that RuleSet!Incr denotes, and the index map gives positions.  *)
(* This is where the (accidental) correctness of the aliasing is decided.  *)
(***************************************************************************)
EXTENDS Integers, Sequences, FiniteSets, TLC

CONSTANTS Names, Sals, MaxOld, MaxNew, Slack,
          AlwaysFresh   \* TRUE: every append allocates a new array (what the code silently relies on NOT happening)

\* a rule is [name, sal, ver]; a slice is [a (array id), off, len]; cap = Len(heap[a]) - off;
\* unused cells of an array hold Nil
Nil == [name |-> "", sal |-> 0, ver |-> 0]

Cap(h, s) == Len(h[s.a]) - s.off
Cell(h, s, i) == h[s.a][s.off + i + 1]                       \* 0-based index i
Contents(h, s) == [i \in 1..s.len |-> h[s.a][s.off + i]]
Sub(s, i, j) == [a |-> s.a, off |-> s.off + i, len |-> j - i]

\* append(s, vals...): in place when it fits, otherwise a fresh array with some slack
AppendVals(h, s, vals, slack) ==
  IF ~AlwaysFresh /\ s.len + Len(vals) <= Cap(h, s)
  THEN [h |-> [h EXCEPT ![s.a] = [k \in 1..Len(@) |->
                  IF k > s.off + s.len /\ k <= s.off + s.len + Len(vals) THEN vals[k - s.off - s.len] ELSE @[k]]],
        s |-> [s EXCEPT !.len = @ + Len(vals)]]
  ELSE LET need == s.len + Len(vals)
           fresh == [k \in 1..(need + slack) |->
                       IF k <= s.len THEN h[s.a][s.off + k] ELSE IF k <= need THEN vals[k - s.len] ELSE Nil]
       IN [h |-> Append(h, fresh), s |-> [a |-> Len(h) + 1, off |-> 0, len |-> need]]

\* tool.BinarySearch as written: the outer `mid` stays 0 unless the salience is found
RECURSIVE BS(_, _, _, _)
BS(re, sal, low, high) ==
  IF low > high THEN <<low, 0>>
  ELSE LET m == (low + high) \div 2 IN
       IF re[m + 1].sal = sal THEN <<low, m>>
       ELSE IF re[m + 1].sal < sal THEN BS(re, sal, low, m - 1) ELSE BS(re, sal, m + 1, high)
BinarySearch(re, sal) == BS(re, sal, 0, Len(re) - 1)

IndexMap(seq) == [x \in {seq[i].name : i \in DOMAIN seq} |-> (CHOOSE i \in DOMAIN seq : seq[i].name = x) - 1]

\* insert v into slice s at the position the search yields; returns [h, s]
InsertInto(h, s, v, slack) ==
  LET re == Contents(h, s)
      lm == BinarySearch(re, v.sal)
      pos == IF lm[2] = 0 THEN lm[1] ELSE lm[2]
      newRe == <<v>> \o [i \in 1..(s.len - pos) |-> re[pos + i]]     \* append(ire, s[pos:]...) : fresh array
  IN AppendVals(h, Sub(s, 0, pos), newRe, slack)

\* state of the loop: heap, outer slice, entity map, live index map
Step(st, v, slack) ==
  IF v.name \in DOMAIN st.ents
  THEN LET index == st.idx[v.name] IN
       IF v.sal = st.ents[v.name].sal
       THEN [st EXCEPT !.h = [@ EXCEPT ![st.outer.a] = [@ EXCEPT ![st.outer.off + index + 1] = v]],
                       !.ents = (v.name :> v) @@ @]
       ELSE \* newSortRules := append(newSortRules[:index], newSortRules[index+1:]...)   (a NEW variable)
            LET tail == [i \in 1..(st.outer.len - index - 1) |-> Cell(st.h, st.outer, index + i)]
                a1 == AppendVals(st.h, Sub(st.outer, 0, index), tail, slack)
                a2 == InsertInto(a1.h, a1.s, v, slack)
            IN [st EXCEPT !.h = a2.h, !.idx = IndexMap(Contents(a2.h, a2.s)), !.ents = (v.name :> v) @@ @]
                 \* the outer slice header is NOT updated
  ELSE LET a2 == InsertInto(st.h, st.outer, v, slack) IN
       [st EXCEPT !.h = a2.h, !.outer = a2.s, !.idx = IndexMap(Contents(a2.h, a2.s)), !.ents = (v.name :> v) @@ @]

RECURSIVE Fold(_, _, _)
Fold(st, order, slack) == IF order = <<>> THEN st ELSE Fold(Step(st, Head(order), slack), Tail(order), slack)

\* the copies made at the start of the call: len = cap
Start(old) ==
  [h |-> <<old>>, outer |-> [a |-> 1, off |-> 0, len |-> Len(old)],
   ents |-> [x \in {old[i].name : i \in DOMAIN old} |-> old[CHOOSE i \in DOMAIN old : old[i].name = x]],
   idx |-> IndexMap(old)]

\* ---- the inputs
Sorted(seq) == \A i, j \in DOMAIN seq : i < j => seq[i].sal >= seq[j].sal
DistinctNames(seq) == \A i, j \in DOMAIN seq : seq[i].name = seq[j].name => i = j
Olds == {s \in UNION {[1..n -> [name : Names, sal : Sals, ver : {1}]] : n \in 0..MaxOld} : Sorted(s) /\ DistinctNames(s)}
News == {s \in UNION {[1..n -> [name : Names, sal : Sals, ver : {2}]] : n \in 1..MaxNew} : DistinctNames(s)}

\* ---- what RuleSet!Incr denotes, and the check
Denoted(old, new) ==
  LET E == [x \in {old[i].name : i \in DOMAIN old} |-> old[CHOOSE i \in DOMAIN old : old[i].name = x]]
      N == [x \in {new[i].name : i \in DOMAIN new} |-> new[CHOOSE i \in DOMAIN new : new[i].name = x]]
  IN N @@ E
Correct(st, old, new) ==
  LET out == Contents(st.h, st.outer)
      D == Denoted(old, new) IN
  /\ Len(out) = Cardinality(DOMAIN D)
  /\ {out[i].name : i \in DOMAIN out} = DOMAIN D
  /\ \A i \in DOMAIN out : out[i] = D[out[i].name]
  /\ Sorted(out)
  /\ st.ents = D
  /\ \A x \in DOMAIN D : x \in DOMAIN st.idx /\ out[st.idx[x] + 1].name = x

\* every new text is a sequence already (one processing order per sequence: News holds all orders)
Refines ==
  \A old \in Olds : \A new \in News : \A slack \in 0..Slack :
     Correct(Fold(Start(old), new, slack), old, new)

ASSUME PrintT(<<"olds", Cardinality(Olds), "news", Cardinality(News)>>)
ASSUME Refines
VARIABLE dummy
ISpec == dummy = 0 /\ [][UNCHANGED dummy]_dummy
=============================================================================
