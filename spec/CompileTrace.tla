---------------------------- MODULE CompileTrace ----------------------------
EXTENDS Compile, Json
VARIABLE l
Trace == ndJsonDeserialize("trace.ndjson")
Ev == Trace[l]
IsEvent(e) == l <= Len(Trace) /\ Trace[l].ev = e /\ l' = l + 1
Max2(a, b) == IF a >= b THEN a ELSE b
TraceInit == cbase = <<>> /\ cclass = "other" /\ cacc = "unknown" /\ cden = <<>> /\ cdk = FALSE /\ l = 1
TSession == IsEvent("session") /\ UNCHANGED cmvars
TBegin   == IsEvent("cm_begin") /\ CmBeginCore(Ev.class, Ev.base, Ev.declared)
TSubmit  == IsEvent("cm_submit") /\ ~Ev.panic /\ CmSubmitCoreB(Ev.ep, Ev.ok, Ev.nopool, Ev.post, Ev.unchanged, IF Ev.cleared THEN <<>> ELSE cbase)
TraceProper == TSession \/ TBegin \/ TSubmit
NextSession(i) ==
  IF \E j \in (i+1)..Len(Trace) : Trace[j].ev = "session"
  THEN CHOOSE j \in (i+1)..Len(Trace) :
         /\ Trace[j].ev = "session"
         /\ \A m \in (i+1)..(j-1) : Trace[m].ev # "session"
  ELSE Len(Trace) + 1
TraceSkip ==
  /\ l <= Len(Trace)
  /\ ~ENABLED TraceProper
  /\ TLCSet(2, Append(TLCGet(2), l))
  /\ l' = NextSession(l)
  /\ cbase' = <<>> /\ cclass' = "other" /\ cacc' = "unknown" /\ cden' = <<>> /\ cdk' = FALSE
TraceNext == TraceProper \/ TraceSkip
TraceSpec == TraceInit /\ [][TraceNext]_<<cmvars, l>>
Mark == TLCSet(1, Max2(TLCGet(1), l))
ASSUME TLCSet(1, 1) /\ TLCSet(2, <<>>)
TraceAccepted ==
  /\ JsonSerialize("result.json", [hwm |-> TLCGet(1), len |-> Len(Trace), rej |-> TLCGet(2)])
  /\ TLCGet(1) = Len(Trace) + 1
=============================================================================
