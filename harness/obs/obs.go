// Package obs is the observer / gate library shared by the conformance drivers.
//
// Every event gets its sequence number under one mutex at the moment the rule
// body calls the injected observer function, so the recorded order is a
// linearisation of the real order (DESIGN §4.1).  A gate is an observer call
// that blocks after it has logged its event until the controller releases it;
// the controller releases one blocked body at a time, each time only after the
// log has been quiet for the quiescence window ("maximal overlap" steering).
// Timing only decides when a gate opens, never a verdict.
package obs

import (
	"math/rand"
	"sync"
	"time"
)

// Event is one line of a trace (encoded as JSON by the driver).
type Event map[string]interface{}

type waiter struct {
	ch   chan struct{}
	name string
}

type Obs struct {
	mu       sync.Mutex
	events   []Event
	last     time.Time
	waiting  []*waiter
	exiting  []*waiter // bodies that logged their end and wait to leave together
	Burst    bool      // hold bodies after their end event and let them go all at once
	Silent   bool      // record nothing and never synchronise (race-detector runs: the observer must not order the bodies)
	active   int       // bodies that logged start and not yet end
	Gated    bool
	Quiet    time.Duration
	rng      *rand.Rand
	stop     chan struct{}
	stopped  chan struct{}
	released int
}

func New(gated bool, quiet time.Duration, seed int64) *Obs {
	return &Obs{Gated: gated, Quiet: quiet, rng: rand.New(rand.NewSource(seed)), last: time.Now()}
}

// Emit appends an event under the global mutex.
func (o *Obs) Emit(e Event) {
	if o.Silent {
		return
	}
	o.mu.Lock()
	o.events = append(o.events, e)
	o.last = time.Now()
	o.mu.Unlock()
}

// EmitStart logs a start event, counts the body as active and (when gated)
// blocks until the controller opens the gate.
func (o *Obs) EmitStart(e Event, name string) {
	if o.Silent {
		return
	}
	o.mu.Lock()
	o.events = append(o.events, e)
	o.last = time.Now()
	o.active++
	if !o.Gated {
		o.mu.Unlock()
		return
	}
	w := &waiter{ch: make(chan struct{}), name: name}
	o.waiting = append(o.waiting, w)
	o.mu.Unlock()
	<-w.ch
}

// EmitEnd logs an end event and counts the body as finished.  In burst mode the
// body then waits on the exit gate: the controller lets all bodies that have
// logged their end leave at the same moment, so that the engine code behind
// the bodies (result map, error list, WaitGroup) runs with maximal overlap.
// The logged end is never later than the real end, so no barrier that the
// code respects can appear broken in the log.
func (o *Obs) EmitEnd(e Event) {
	if o.Silent {
		return
	}
	o.mu.Lock()
	o.events = append(o.events, e)
	o.last = time.Now()
	o.active--
	if !(o.Gated && o.Burst) {
		o.mu.Unlock()
		return
	}
	w := &waiter{ch: make(chan struct{})}
	o.exiting = append(o.exiting, w)
	o.mu.Unlock()
	<-w.ch
}

// Hold blocks the caller on a gate without logging start/end bookkeeping.
func (o *Obs) Hold(e Event, name string) {
	if o.Silent {
		return
	}
	o.mu.Lock()
	o.events = append(o.events, e)
	o.last = time.Now()
	if !o.Gated {
		o.mu.Unlock()
		return
	}
	w := &waiter{ch: make(chan struct{}), name: name}
	o.waiting = append(o.waiting, w)
	o.mu.Unlock()
	<-w.ch
}

// Park blocks the caller on a gate without logging anything (a pure yield point).
func (o *Obs) Park(name string) {
	if o.Silent {
		return
	}
	o.mu.Lock()
	if !o.Gated {
		o.mu.Unlock()
		return
	}
	w := &waiter{ch: make(chan struct{}), name: name}
	o.waiting = append(o.waiting, w)
	o.mu.Unlock()
	<-w.ch
}

// StartController starts the releasing goroutine.
func (o *Obs) StartController() {
	o.stop = make(chan struct{})
	o.stopped = make(chan struct{})
	go func() {
		defer close(o.stopped)
		for {
			select {
			case <-o.stop:
				return
			default:
			}
			o.mu.Lock()
			quiet := time.Since(o.last) >= o.Quiet
			var w *waiter
			var burst []*waiter
			if quiet && len(o.waiting) > 0 {
				i := o.rng.Intn(len(o.waiting))
				w = o.waiting[i]
				o.waiting = append(o.waiting[:i], o.waiting[i+1:]...)
				o.last = time.Now()
				o.released++
			} else if quiet && len(o.exiting) > 0 {
				burst = o.exiting
				o.exiting = nil
				o.last = time.Now()
			}
			o.mu.Unlock()
			if w != nil {
				close(w.ch)
				continue
			}
			if burst != nil {
				for _, x := range burst {
					close(x.ch)
				}
				continue
			}
			time.Sleep(o.Quiet / 4)
		}
	}()
}

// StopController stops the controller and opens every remaining gate.
func (o *Obs) StopController() {
	if o.stop != nil {
		close(o.stop)
		<-o.stopped
		o.stop = nil
	}
	o.ReleaseAll()
}

func (o *Obs) ReleaseAll() {
	o.mu.Lock()
	ws := append(o.waiting, o.exiting...)
	o.waiting = nil
	o.exiting = nil
	o.mu.Unlock()
	for _, w := range ws {
		close(w.ch)
	}
}

// Drain waits until no body is active any more (after the call returned),
// releasing gates as they appear.  Returns false on timeout.
func (o *Obs) Drain(timeout time.Duration) bool {
	deadline := time.Now().Add(timeout)
	for {
		o.ReleaseAll()
		o.mu.Lock()
		a := o.active
		o.mu.Unlock()
		if a <= 0 {
			return true
		}
		if time.Now().After(deadline) {
			return false
		}
		time.Sleep(200 * time.Microsecond)
	}
}

// Settle opens all gates until the log has been quiet for d (used where the
// number of active bodies is not tracked).
func (o *Obs) Settle(d time.Duration) {
	for {
		o.ReleaseAll()
		o.mu.Lock()
		q := time.Since(o.last) >= d && len(o.waiting) == 0 && len(o.exiting) == 0
		o.mu.Unlock()
		if q {
			return
		}
		time.Sleep(d / 4)
	}
}

// Len is the number of events logged so far.
func (o *Obs) Len() int {
	o.mu.Lock()
	defer o.mu.Unlock()
	return len(o.events)
}

func (o *Obs) Active() int {
	o.mu.Lock()
	defer o.mu.Unlock()
	return o.active
}

func (o *Obs) Waiting() int {
	o.mu.Lock()
	defer o.mu.Unlock()
	return len(o.waiting)
}

// Take returns the events logged so far and clears the log.
func (o *Obs) Take() []Event {
	o.mu.Lock()
	defer o.mu.Unlock()
	ev := o.events
	o.events = nil
	return ev
}
