// langdrv generates seeded random rule programs (statement trees) together with
// their abstract syntax, runs them on the real engine and records what the host
// program observes, for validation against the reference semantics spec/Lang.tla
// (C02).  Session = {id, seed, depth}: the program is a function of the seed.
package main

import (
	"bufio"
	"encoding/json"
	"flag"
	"fmt"
	"math/rand"
	"os"
	"regexp"
	"sort"
	"strconv"
	"strings"

	"github.com/bilibili/gengine/builder"
	"github.com/bilibili/gengine/context"
	"github.com/bilibili/gengine/engine"
)

type Session struct {
	ID    int           `json:"id"`
	Seed  int64         `json:"seed"`
	Depth int           `json:"depth"`
	Size  int           `json:"size"`
	Prog  []interface{} `json:"prog"` // a tree enumerated by spec/LangGen.tla: rendered instead of generated
	// C20: a laid-out text with one faulty construct (spec/LangLines.tla)
	Lines  []string `json:"lines"`
	Fault  int      `json:"fault"`
	Stmt   int      `json:"stmt"`
	Class  string   `json:"class"`
	Always bool     `json:"always"`
	CRLF   bool     `json:"crlf"` // the text uses \r\n line ends
	Pad    int      `json:"pad"`  // this many empty lines stand in front of Lines (Fault and Stmt count them)
	// Route: how the text reaches the engine: "" one compile; incr: the faulty rule alone is compiled first (at line 1)
	// and the text then arrives as an incremental update; pool / poolupd / poolincr: the same through a pool
	Route string `json:"route"`
}

type LObj struct {
	I8 int8
	In *LInner
}
type LInner struct{}

func (o *LObj) Boom() int64     { panic("method boom") }
func (o *LObj) BoomLine() int64 { panic(fmt.Errorf("line 1 of the feed is malformed")) }
func (i *LInner) Boom() int64   { panic("three level boom") }

var citeRe = regexp.MustCompile(`line (\d+), column`)

func runLines(s *Session) []N {
	nl := "\n"
	if s.CRLF {
		nl = "\r\n"
	}
	text := strings.Repeat(nl, s.Pad) + strings.Join(s.Lines, nl) + nl
	apis := map[string]interface{}{
		"obj": &LObj{In: &LInner{}}, "arr": []int64{1, 2, 3}, "m": map[string]int64{"k": 1}, "ev": func(v interface{}) {},
		"boom": func() int64 { panic("boom") }, "boomline": func() int64 { panic("line 1 of the feed is malformed") }, "uz": uint64(0), "iz": int64(0), "fz": float64(0),
	}
	dc := context.NewDataContext()
	for k, v := range apis {
		dc.Add(k, v)
	}
	// the faulty rule on its own, from its `rule` line to its `end` line: the earlier text of the incremental routes
	first := ""
	if s.Route != "" && s.Route != "pool" {
		lo, hi := s.Fault-s.Pad-1, s.Fault-s.Pad-1
		for lo > 0 && !strings.HasPrefix(strings.TrimSpace(s.Lines[lo]), "rule ") {
			lo--
		}
		for hi < len(s.Lines)-1 && strings.TrimSpace(s.Lines[hi]) != "end" {
			hi++
		}
		first = strings.Join(s.Lines[lo:hi+1], nl) + nl
	}
	var err error
	var pv interface{}
	route := s.Route
	if strings.HasPrefix(route, "pool") {
		t0 := text
		if route != "pool" {
			t0 = first
		}
		p, e := engine.NewGenginePool(1, 2, 1, t0, apis)
		if e == nil && route == "poolupd" {
			e = p.UpdatePooledRules(text)
		}
		if e == nil && route == "poolincr" {
			e = p.UpdatePooledRulesIncremental(text)
		}
		if e != nil {
			return []N{{"ev": "session", "id": s.ID}, {"ev": "lskip", "why": trunc(e.Error(), 160), "class": s.Class}}
		}
		func() {
			defer func() {
				if x := recover(); x != nil {
					pv = x
				}
			}()
			err, _ = p.Execute(map[string]interface{}{}, true)
		}()
	} else {
		rb := builder.NewRuleBuilder(dc)
		if route == "incr" {
			if e := rb.BuildRuleFromString(first); e != nil {
				return []N{{"ev": "session", "id": s.ID}, {"ev": "lskip", "why": trunc(e.Error(), 160), "class": s.Class}}
			}
			if e := rb.BuildRuleWithIncremental(text); e != nil {
				return []N{{"ev": "session", "id": s.ID}, {"ev": "lskip", "why": trunc(e.Error(), 160), "class": s.Class}}
			}
		} else if e := rb.BuildRuleFromString(text); e != nil {
			return []N{{"ev": "session", "id": s.ID}, {"ev": "lskip", "why": trunc(e.Error(), 160), "class": s.Class}}
		}
		eng := engine.NewGengine()
		func() {
			defer func() {
				if x := recover(); x != nil {
					pv = x
				}
			}()
			err = eng.Execute(rb, true)
		}()
	}
	shown := text
	if s.Pad > 0 {
		shown = fmt.Sprintf("<%d empty lines>%s", s.Pad, nl) + text[s.Pad*len(nl):]
	}
	cited := []int{}
	msg := ""
	if err != nil {
		msg = err.Error()
		seen := map[int]bool{}
		for _, m := range citeRe.FindAllStringSubmatch(msg, -1) {
			n, _ := strconv.Atoi(m[1])
			if !seen[n] {
				seen[n] = true
				cited = append(cited, n)
			}
		}
	}
	return []N{{"ev": "session", "id": s.ID}, {"ev": "lcase", "err": err != nil, "panic": pv != nil, "cited": cited,
		"fault": s.Fault, "stmt": s.Stmt, "class": s.Class, "always": s.Always, "msg": trunc(msg, 400), "text": shown}}
}

func trunc(s string, n int) string {
	if len(s) > n {
		return s[:n]
	}
	return s
}

// ---- rendering of enumerated trees (fully parenthesised, one statement per line)

func rexpr(e N) string {
	switch e["k"] {
	case "int":
		return fmt.Sprint(e["v"])
	case "bool":
		return fmt.Sprint(e["v"])
	case "str":
		return "\"" + fmt.Sprint(e["v"]) + "\""
	case "var":
		return e["n"].(string)
	case "fld":
		return "obj." + e["n"].(string)
	case "key":
		return "m[\"" + e["n"].(string) + "\"]"
	case "idx":
		return fmt.Sprintf("arr[%v]", e["i"])
	case "idxv":
		return "arr[" + e["n"].(string) + "]"
	case "par":
		return "(" + rexpr(e["e"].(N)) + ")"
	case "not":
		return "!(" + rexpr(e["e"].(N)) + ")"
	case "bin":
		return "(" + rexpr(e["l"].(N)) + ") " + e["op"].(string) + " (" + rexpr(e["r"].(N)) + ")"
	}
	panic("render: unknown expression kind")
}

func (g *gen) rblock(indent int, ss []interface{}) {
	for _, x := range ss {
		st := x.(N)
		switch st["k"] {
		case "asg":
			ln := g.emit(indent, rexpr(st["t"].(N))+" "+st["op"].(string)+" "+rexpr(st["e"].(N)))
			setLines(st["t"].(N), ln)
			setLines(st["e"].(N), ln)
			st["line"] = ln
		case "ev":
			ln := g.emit(indent, fmt.Sprintf("ev(%v, %s)", st["tag"], rexpr(st["e"].(N))))
			setLines(st["e"].(N), ln)
			st["line"] = ln
		case "if":
			ln := g.emit(indent, "if "+rexpr(st["c"].(N))+" {")
			setLines(st["c"].(N), ln)
			st["line"] = ln
			g.rblock(indent+1, st["then"].([]interface{}))
			for _, ei := range st["elifs"].([]interface{}) {
				el := ei.(N)
				l2 := g.emit(indent, "} else if "+rexpr(el["c"].(N))+" {")
				setLines(el["c"].(N), l2)
				g.rblock(indent+1, el["b"].([]interface{}))
			}
			if st["haselse"].(bool) {
				g.emit(indent, "} else {")
				g.rblock(indent+1, st["else"].([]interface{}))
			}
			g.emit(indent, "}")
		case "for":
			in, c, sp := st["init"].(N), st["c"].(N), st["step"].(N)
			ln := g.emit(indent, fmt.Sprintf("for %s %s %s; %s; %s %s %s {", rexpr(in["t"].(N)), in["op"], rexpr(in["e"].(N)),
				rexpr(c), rexpr(sp["t"].(N)), sp["op"], rexpr(sp["e"].(N))))
			for _, n := range []N{in, c, sp} {
				setLines(n, ln)
				if t, ok := n["t"].(N); ok {
					setLines(t, ln)
				}
			}
			st["line"] = ln
			g.rblock(indent+1, st["b"].([]interface{}))
			g.emit(indent, "}")
		case "range":
			ln := g.emit(indent, fmt.Sprintf("forRange %s := %s {", st["v"], st["coll"]))
			st["line"] = ln
			g.rblock(indent+1, st["b"].([]interface{}))
			g.emit(indent, "}")
		case "brk":
			st["line"] = g.emit(indent, "break")
		case "cont":
			st["line"] = g.emit(indent, "continue")
		case "ret":
			if st["has"].(bool) {
				ln := g.emit(indent, "return "+rexpr(st["e"].(N)))
				setLines(st["e"].(N), ln)
				st["line"] = ln
			} else {
				st["line"] = g.emit(indent, "return")
			}
		}
	}
}

type N = map[string]interface{}

type gen struct {
	r         *rand.Rand
	lines     []string
	ints      []string        // int locals that may be used
	bools     []string        // bool locals
	strs      []string        // string locals
	def       map[string]bool // definitely assigned at this point
	tag       int
	loopd     int
	budget    int
	inMapLoop bool
	fldLoop   bool // inside a for whose loop variable is the injected field obj.C
}

var intNames = []string{"x", "y", "z", "w"}
var boolNames = []string{"p", "q"}
var strNames = []string{"s", "t"}

func (g *gen) emit(indent int, s string) int {
	g.lines = append(g.lines, strings.Repeat("  ", indent)+s)
	return len(g.lines) // 1-based line of this statement inside the body
}

// expressions are rendered fully parenthesised: precedence is C01's business
func (g *gen) intExpr(d int) (N, string) {
	k := g.r.Intn(10)
	if d <= 0 || k < 4 {
		switch g.r.Intn(7) {
		case 0, 1:
			v := g.r.Intn(6)
			return N{"k": "int", "v": v}, fmt.Sprint(v)
		case 2, 3:
			// a local: mostly a defined one
			var cands []string
			for _, n := range g.ints {
				if g.def[n] {
					cands = append(cands, n)
				}
			}
			if g.r.Intn(40) == 0 {
				cands = g.ints // rarely: a local that may be unassigned (the rule must fail there)
			}
			if len(cands) == 0 {
				v := g.r.Intn(6)
				return N{"k": "int", "v": v}, fmt.Sprint(v)
			}
			n := cands[g.r.Intn(len(cands))]
			return N{"k": "var", "n": n}, n
		case 4:
			n := []string{"A", "B", "C"}[g.r.Intn(3)]
			return N{"k": "fld", "n": n}, "obj." + n
		case 5:
			n := []string{"k1", "k2", "k3"}[g.r.Intn(3)]
			return N{"k": "key", "n": n}, "m[\"" + n + "\"]"
		default:
			i := g.r.Intn(3)
			if g.r.Intn(25) == 0 {
				i = 7 // out of range
			}
			return N{"k": "idx", "i": i}, fmt.Sprintf("arr[%d]", i)
		}
	}
	op := []string{"+", "-", "+", "-", "*", "/"}[g.r.Intn(6)]
	l, ls := g.intExpr(d - 1)
	var rn N
	var rs string
	if op == "*" || op == "/" {
		v := 1 + g.r.Intn(3)
		if op == "/" && g.r.Intn(30) == 0 {
			v = 0
		}
		rn, rs = N{"k": "int", "v": v}, fmt.Sprint(v)
	} else {
		rn, rs = g.intExpr(d - 1)
	}
	return N{"k": "bin", "op": op, "l": N{"k": "par", "e": l}, "r": N{"k": "par", "e": rn}}, "(" + ls + ") " + op + " (" + rs + ")"
}

func (g *gen) boolExpr(d int) (N, string) {
	k := g.r.Intn(10)
	if d <= 0 || k < 3 {
		switch g.r.Intn(4) {
		case 0:
			v := g.r.Intn(2) == 0
			return N{"k": "bool", "v": v}, fmt.Sprint(v)
		case 1:
			var cands []string
			for _, n := range g.bools {
				if g.def[n] {
					cands = append(cands, n)
				}
			}
			if len(cands) > 0 {
				n := cands[g.r.Intn(len(cands))]
				return N{"k": "var", "n": n}, n
			}
		}
		op := []string{"==", "!=", "<", "<=", ">", ">="}[g.r.Intn(6)]
		l, ls := g.intExpr(1)
		r, rs := g.intExpr(1)
		return N{"k": "bin", "op": op, "l": N{"k": "par", "e": l}, "r": N{"k": "par", "e": r}}, "(" + ls + ") " + op + " (" + rs + ")"
	}
	switch g.r.Intn(4) {
	case 0:
		e, es := g.boolExpr(d - 1)
		return N{"k": "not", "e": N{"k": "par", "e": e}}, "!(" + es + ")"
	default:
		op := []string{"&&", "||"}[g.r.Intn(2)]
		l, ls := g.boolExpr(d - 1)
		r, rs := g.boolExpr(d - 1)
		return N{"k": "bin", "op": op, "l": N{"k": "par", "e": l}, "r": N{"k": "par", "e": r}}, "(" + ls + ") " + op + " (" + rs + ")"
	}
}

func (g *gen) strExpr() (N, string) {
	switch g.r.Intn(3) {
	case 0:
		var cands []string
		for _, n := range g.strs {
			if g.def[n] {
				cands = append(cands, n)
			}
		}
		if len(cands) > 0 {
			n := cands[g.r.Intn(len(cands))]
			lit := []string{"a", "b", ""}[g.r.Intn(2)]
			return N{"k": "bin", "op": "+", "l": N{"k": "var", "n": n}, "r": N{"k": "str", "v": lit}}, n + " + \"" + lit + "\""
		}
	}
	lit := []string{"a", "bc", "d"}[g.r.Intn(3)]
	return N{"k": "str", "v": lit}, "\"" + lit + "\""
}

// sets the line on every expression node
func setLines(n N, line int) {
	n["line"] = line
	for _, k := range []string{"l", "r", "e"} {
		if c, ok := n[k].(N); ok {
			setLines(c, line)
		}
	}
}

func (g *gen) assignment(indent int, inLoop bool) (N, string) {
	// target
	var t N
	var ts string
	var e N
	var es string
	op := "="
	switch g.r.Intn(9) {
	case 0:
		n := g.bools[g.r.Intn(len(g.bools))]
		t, ts = N{"k": "var", "n": n}, n
		e, es = g.boolExpr(2)
		g.def[n] = true
		return N{"k": "asg", "t": t, "op": "=", "e": e}, ts + " = " + es
	case 1:
		n := g.strs[g.r.Intn(len(g.strs))]
		t, ts = N{"k": "var", "n": n}, n
		e, es = g.strExpr()
		g.def[n] = true
		return N{"k": "asg", "t": t, "op": "=", "e": e}, ts + " = " + es
	case 2, 3, 4:
		// never a loop variable: generated loops stay short (the iteration cut-off is C09's business)
		n := intNames[g.r.Intn(len(intNames))]
		t, ts = N{"k": "var", "n": n}, n
		if g.def[n] && g.r.Intn(2) == 0 {
			op = g.compound()
		}
		if op == "=" && g.r.Intn(5) == 0 {
			op = ":="
		}
		g.def[n] = true
	case 5:
		n := []string{"A", "B", "C"}[g.r.Intn(3)]
		if g.fldLoop && n == "C" {
			n = "A" // never the loop variable of the enclosing for
		}
		t, ts = N{"k": "fld", "n": n}, "obj."+n
		if g.r.Intn(2) == 0 {
			op = g.compound()
		}
	case 6:
		n := []string{"k1", "k2", "k3"}[g.r.Intn(3)]
		t, ts = N{"k": "key", "n": n}, "m[\""+n+"\"]"
		if g.r.Intn(2) == 0 {
			op = g.compound()
		}
	default:
		i := g.r.Intn(3)
		t, ts = N{"k": "idx", "i": i}, fmt.Sprintf("arr[%d]", i)
		if g.r.Intn(2) == 0 {
			op = g.compound()
		}
	}
	if op == "*=" || op == "/=" {
		v := 1 + g.r.Intn(2)
		if g.loopd > 1 {
			v = 1
		}
		e, es = N{"k": "int", "v": v}, fmt.Sprint(v)
	} else if op == "=" || op == ":=" {
		e, es = g.intExpr(2)
	} else {
		v := g.r.Intn(4)
		e, es = N{"k": "int", "v": v}, fmt.Sprint(v)
	}
	return N{"k": "asg", "t": t, "op": op, "e": e}, ts + " " + op + " " + es
}

func (g *gen) compound() string { return []string{"+=", "-=", "*=", "/=", "+="}[g.r.Intn(5)] }

// block generates a statement list; last reports whether a `return` may close it
func (g *gen) block(indent, depth, n int, inLoop bool) []interface{} {
	var out []interface{}
	saved := map[string]bool{}
	for k, v := range g.def {
		saved[k] = v
	}
	for i := 0; i < n && g.budget > 0; i++ {
		g.budget--
		k := g.r.Intn(20)
		switch {
		case k < 6:
			a, s := g.assignment(indent, inLoop)
			ln := g.emit(indent, s)
			setLines(a["e"].(N), ln)
			setLines(a["t"].(N), ln)
			a["line"] = ln
			out = append(out, a)
		case k < 10:
			g.tag++
			var e N
			var es string
			switch g.r.Intn(4) {
			case 0:
				e, es = g.boolExpr(1)
			case 1:
				e, es = g.strExpr()
			default:
				e, es = g.intExpr(2)
			}
			ln := g.emit(indent, fmt.Sprintf("ev(%d, %s)", g.tag, es))
			setLines(e, ln)
			out = append(out, N{"k": "ev", "tag": g.tag, "e": e, "line": ln})
		case k < 14 && depth > 0:
			c, cs := g.boolExpr(2)
			ln := g.emit(indent, "if "+cs+" {")
			setLines(c, ln)
			then := g.block(indent+1, depth-1, 1+g.r.Intn(3), inLoop)
			node := N{"k": "if", "c": c, "then": then, "line": ln, "elifs": []interface{}{}, "haselse": false, "else": []interface{}{}}
			var elifs []interface{}
			for g.r.Intn(3) == 0 {
				c2, cs2 := g.boolExpr(1)
				l2 := g.emit(indent, "} else if "+cs2+" {")
				setLines(c2, l2)
				b2 := g.block(indent+1, depth-1, 1+g.r.Intn(2), inLoop)
				elifs = append(elifs, N{"c": c2, "b": b2})
			}
			if elifs != nil {
				node["elifs"] = elifs
			}
			if g.r.Intn(2) == 0 {
				g.emit(indent, "} else {")
				node["haselse"] = true
				node["else"] = g.block(indent+1, depth-1, 1+g.r.Intn(2), inLoop)
			}
			g.emit(indent, "}")
			out = append(out, node)
		case k < 16 && depth > 0 && g.loopd < 2:
			v := []string{"i", "j"}[g.loopd]
			lim := g.r.Intn(5) // 0: a loop that never iterates
			start := g.r.Intn(2)
			if !g.fldLoop && g.r.Intn(4) == 0 {
				// the loop variable is an injected field: init, condition and step are visible to the host
				ln := g.emit(indent, fmt.Sprintf("for obj.C = %d; obj.C < %d; obj.C += 1 {", start, lim))
				g.loopd++
				g.fldLoop = true
				body := g.block(indent+1, depth-1, g.r.Intn(4), true) // possibly an empty body
				g.fldLoop = false
				g.loopd--
				g.emit(indent, "}")
				fc := func() N { return N{"k": "fld", "n": "C", "line": ln} }
				init := N{"k": "asg", "t": fc(), "op": "=", "e": N{"k": "int", "v": start, "line": ln}, "line": ln}
				cond := N{"k": "bin", "op": "<", "l": fc(), "r": N{"k": "int", "v": lim, "line": ln}, "line": ln}
				step := N{"k": "asg", "t": fc(), "op": "+=", "e": N{"k": "int", "v": 1, "line": ln}, "line": ln}
				out = append(out, N{"k": "for", "init": init, "c": cond, "step": step, "b": body, "line": ln})
				break
			}
			ln := g.emit(indent, fmt.Sprintf("for %s = %d; %s < %d; %s += 1 {", v, start, v, lim, v))
			g.loopd++
			wasDef := g.def[v]
			g.def[v] = true
			g.ints = append(g.ints, v)
			var pre []interface{}
			if g.r.Intn(4) == 0 {
				// the body itself moves the loop variable forward (the step read-modify-writes whatever the body left)
				op, inc := []string{"+=", "="}[g.r.Intn(2)], 1+g.r.Intn(2)
				var e N
				txt := ""
				if op == "+=" {
					e, txt = N{"k": "int", "v": inc}, fmt.Sprintf("%s += %d", v, inc)
				} else {
					e = N{"k": "bin", "op": "+", "l": N{"k": "var", "n": v}, "r": N{"k": "int", "v": inc}}
					txt = fmt.Sprintf("%s = (%s) + (%d)", v, v, inc)
				}
				l0 := g.emit(indent+1, txt)
				setLines(e, l0)
				pre = append(pre, N{"k": "asg", "t": N{"k": "var", "n": v, "line": l0}, "op": op, "e": e, "line": l0})
			}
			body := append(pre, g.block(indent+1, depth-1, g.r.Intn(4), true)...) // possibly an empty body
			if body == nil {
				body = []interface{}{}
			}
			g.ints = g.ints[:len(g.ints)-1]
			g.def[v] = wasDef
			g.loopd--
			g.emit(indent, "}")
			init := N{"k": "asg", "t": N{"k": "var", "n": v, "line": ln}, "op": "=", "e": N{"k": "int", "v": start, "line": ln}, "line": ln}
			cond := N{"k": "bin", "op": "<", "l": N{"k": "var", "n": v, "line": ln}, "r": N{"k": "int", "v": lim, "line": ln}, "line": ln}
			step := N{"k": "asg", "t": N{"k": "var", "n": v, "line": ln}, "op": "+=", "e": N{"k": "int", "v": 1, "line": ln}, "line": ln}
			out = append(out, N{"k": "for", "init": init, "c": cond, "step": step, "b": body, "line": ln})
			g.def[v] = true // the loop variable stays visible after the loop (flat scope)
			if g.r.Intn(2) == 0 {
				g.tag++
				l3 := g.emit(indent, fmt.Sprintf("ev(%d, %s)", g.tag, v))
				out = append(out, N{"k": "ev", "tag": g.tag, "e": N{"k": "var", "n": v, "line": l3}, "line": l3})
			}
		case k < 17 && depth > 0 && g.loopd < 2:
			v := []string{"r1", "r2"}[g.loopd]
			// arr is an injected slice; za an injected fixed-size array of three elements (often all zero); oz a struct
			// holding such an array
			coll := []string{"arr", "arr", "za", "oz.Z"}[g.r.Intn(4)]
			ln := g.emit(indent, fmt.Sprintf("forRange %s := %s {", v, coll))
			g.loopd++
			wasDef := g.def[v]
			g.def[v] = true
			g.ints = append(g.ints, v)
			body := g.block(indent+1, depth-1, g.r.Intn(4), true) // possibly an empty body
			g.ints = g.ints[:len(g.ints)-1]
			g.def[v] = wasDef
			g.loopd--
			g.emit(indent, "}")
			out = append(out, N{"k": "range", "v": v, "coll": coll, "b": body, "line": ln})
			if len(body) == 0 {
				// the key variable of a loop that ran (arr is never empty) keeps its last value
				g.tag++
				l3 := g.emit(indent, fmt.Sprintf("ev(%d, %s)", g.tag, v))
				out = append(out, N{"k": "ev", "tag": g.tag, "e": N{"k": "var", "n": v, "line": l3}, "line": l3})
			}
		case k == 17 && depth > 0 && g.loopd < 2 && !g.inMapLoop:
			// forRange over the injected map: every key the map holds at loop entry exactly once, also when the body
			// inserts keys.  The iteration order is unspecified, so the body is insensitive to it.
			ln := g.emit(indent, "forRange rk := m {")
			g.loopd++
			g.inMapLoop = true
			var body []interface{}
			for n := 1 + g.r.Intn(3); n > 0; n-- {
				switch g.r.Intn(5) {
				case 0:
					l2 := g.emit(indent+1, "cnt += 1")
					body = append(body, N{"k": "asg", "t": N{"k": "var", "n": "cnt", "line": l2}, "op": "+=", "e": N{"k": "int", "v": 1, "line": l2}, "line": l2})
				case 1:
					l2 := g.emit(indent+1, "obj.B += 2")
					body = append(body, N{"k": "asg", "t": N{"k": "fld", "n": "B", "line": l2}, "op": "+=", "e": N{"k": "int", "v": 2, "line": l2}, "line": l2})
				case 2:
					nk := []string{"k8", "k9"}[g.r.Intn(2)]
					l2 := g.emit(indent+1, "m[\""+nk+"\"] = 5")
					body = append(body, N{"k": "asg", "t": N{"k": "key", "n": nk, "line": l2}, "op": "=", "e": N{"k": "int", "v": 5, "line": l2}, "line": l2})
				case 3:
					l2 := g.emit(indent+1, "cnt += m[rk]")
					body = append(body, N{"k": "asg", "t": N{"k": "var", "n": "cnt", "line": l2}, "op": "+=", "e": N{"k": "keyv", "n": "rk", "line": l2}, "line": l2})
				default:
					g.tag++
					l2 := g.emit(indent+1, fmt.Sprintf("ev(%d, 7)", g.tag))
					body = append(body, N{"k": "ev", "tag": g.tag, "e": N{"k": "int", "v": 7, "line": l2}, "line": l2})
				}
			}
			g.inMapLoop = false
			g.loopd--
			g.emit(indent, "}")
			out = append(out, N{"k": "rangem", "v": "rk", "b": body, "line": ln})
			g.tag++
			l3 := g.emit(indent, fmt.Sprintf("ev(%d, cnt)", g.tag))
			out = append(out, N{"k": "ev", "tag": g.tag, "e": N{"k": "var", "n": "cnt", "line": l3}, "line": l3})
		case k < 19 && (inLoop || g.r.Intn(30) == 0) && depth > 0:
			// break / continue, usually guarded
			kw := []string{"break", "continue"}[g.r.Intn(2)]
			c, cs := g.boolExpr(1)
			ln := g.emit(indent, "if "+cs+" {")
			setLines(c, ln)
			l2 := g.emit(indent+1, kw)
			g.emit(indent, "}")
			kk := "brk"
			if kw == "continue" {
				kk = "cont"
			}
			out = append(out, N{"k": "if", "c": c, "then": []interface{}{N{"k": kk, "line": l2}}, "elifs": []interface{}{},
				"haselse": false, "else": []interface{}{}, "line": ln})
		default:
			a, s := g.assignment(indent, inLoop)
			ln := g.emit(indent, s)
			setLines(a["e"].(N), ln)
			setLines(a["t"].(N), ln)
			a["line"] = ln
			out = append(out, a)
		}
	}
	// a return may close any block
	if g.r.Intn(7) == 0 || (indent == 1 && g.r.Intn(2) == 0) {
		switch g.r.Intn(5) {
		case 0:
			ln := g.emit(indent, "return")
			out = append(out, N{"k": "ret", "has": false, "e": N{"k": "int", "v": 0, "line": ln}, "line": ln})
		case 1:
			e, es := g.boolExpr(1)
			ln := g.emit(indent, "return "+es)
			setLines(e, ln)
			out = append(out, N{"k": "ret", "has": true, "e": e, "line": ln})
		default:
			e, es := g.intExpr(2)
			ln := g.emit(indent, "return "+es)
			setLines(e, ln)
			out = append(out, N{"k": "ret", "has": true, "e": e, "line": ln})
		}
	}
	// assignments inside a conditional or loop block are not definite afterwards
	if indent > 1 {
		for k := range g.def {
			if !saved[k] {
				g.def[k] = false
			}
		}
	}
	if out == nil {
		out = []interface{}{}
	}
	return out
}

type Obj struct{ A, B, C int64 }
type ZHolder struct{ Z [3]int64 }

func typed(v interface{}) N {
	switch x := v.(type) {
	case int64:
		return N{"t": "int", "v": x}
	case int:
		return N{"t": "int", "v": x}
	case bool:
		return N{"t": "bool", "v": x}
	case string:
		return N{"t": "str", "v": x}
	}
	return N{"t": "other", "v": fmt.Sprint(v)}
}

func hostJSON(o *Obj, m map[string]int64, arr []int64) N {
	var mp [][]interface{}
	var ks []string
	for k := range m {
		ks = append(ks, k)
	}
	sort.Strings(ks)
	mp = [][]interface{}{}
	for _, k := range ks {
		mp = append(mp, []interface{}{k, m[k]})
	}
	a := make([]int64, len(arr))
	copy(a, arr)
	return N{"obj": [][]interface{}{{"A", o.A}, {"B", o.B}, {"C", o.C}}, "m": mp, "arr": a}
}

func runCase(s *Session) []N {
	r := rand.New(rand.NewSource(s.Seed))
	g := &gen{r: r, ints: append([]string{}, intNames...), bools: boolNames, strs: strNames, def: map[string]bool{}, budget: s.Size}
	g.lines = []string{"rule \"prog\" \"d\" salience 1", "begin"}
	if s.Prog != nil {
		g.rblock(1, s.Prog)
		g.emit(0, "end")
		return execCase(s, g, r, s.Prog)
	}
	// most programs start by binding a few locals
	var pre []interface{}
	{
		ln := g.emit(1, "cnt = 0")
		pre = append(pre, N{"k": "asg", "t": N{"k": "var", "n": "cnt", "line": ln}, "op": "=", "e": N{"k": "int", "v": 0, "line": ln}, "line": ln})
		g.def["cnt"] = true
	}
	for _, n := range intNames {
		if r.Intn(10) < 7 {
			v := r.Intn(6)
			ln := g.emit(1, fmt.Sprintf("%s = %d", n, v))
			pre = append(pre, N{"k": "asg", "t": N{"k": "var", "n": n, "line": ln}, "op": "=", "e": N{"k": "int", "v": v, "line": ln}, "line": ln})
			g.def[n] = true
		}
	}
	if r.Intn(2) == 0 {
		ln := g.emit(1, "p = true")
		pre = append(pre, N{"k": "asg", "t": N{"k": "var", "n": "p", "line": ln}, "op": "=", "e": N{"k": "bool", "v": true, "line": ln}, "line": ln})
		g.def["p"] = true
	}
	prog := append(pre, g.block(1, s.Depth, 3+r.Intn(5), false)...)
	g.emit(0, "end")
	return execCase(s, g, r, prog)
}

func execCase(s *Session, g *gen, r *rand.Rand, prog []interface{}) []N {
	text := strings.Join(g.lines, "\n") + "\n"

	o := &Obj{A: int64(r.Intn(6)), B: int64(r.Intn(6)), C: int64(r.Intn(3))}
	m := map[string]int64{"k1": int64(r.Intn(5))}
	if r.Intn(2) == 0 {
		m["k2"] = int64(r.Intn(5))
	}
	arr := []int64{int64(r.Intn(5)), int64(r.Intn(5)), int64(r.Intn(5))}
	host0 := hostJSON(o, m, arr)
	var trace [][]interface{}
	trace = [][]interface{}{}
	dc := context.NewDataContext()
	dc.Add("obj", o)
	dc.Add("m", m)
	dc.Add("arr", arr)
	za := [3]int64{}
	if r.Intn(3) == 0 {
		za[r.Intn(3)] = 4
	}
	dc.Add("za", za)
	dc.Add("oz", &ZHolder{Z: za})
	dc.Add("ev", func(tag int64, v interface{}) { trace = append(trace, []interface{}{tag, typed(v)}) })
	rb := builder.NewRuleBuilder(dc)
	if err := rb.BuildRuleFromString(text); err != nil {
		fmt.Fprintf(os.Stderr, "driver: session %d: generated program does not compile: %v\n%s\n", s.ID, err, text)
		os.Exit(2)
	}
	eng := engine.NewGengine()
	var err error
	var pv interface{}
	func() {
		defer func() {
			if x := recover(); x != nil {
				pv = x
			}
		}()
		err = eng.Execute(rb, true)
	}()
	res, _ := eng.GetRulesResultMap()
	v, returned := res["prog"]
	obs := N{"trace": trace, "err": err != nil || pv != nil, "panic": pv != nil, "returned": returned,
		"hasval": returned && v != nil, "val": typed(int64(0)), "host": hostJSON(o, m, arr)}
	if returned && v != nil {
		obs["val"] = typed(v)
	}
	if err != nil {
		msg := err.Error()
		if len(msg) > 300 {
			msg = msg[:300]
		}
		obs["msg"] = msg
	}
	return []N{{"ev": "session", "id": s.ID}, {"ev": "case", "prog": prog, "host0": host0, "obs": obs, "text": text}}
}

func main() {
	in := flag.String("in", "", "sessions ndjson")
	out := flag.String("out", "", "trace ndjson (appended)")
	journal := flag.String("journal", "", "journal file")
	shard := flag.String("shard", "0/1", "i/n")
	from := flag.Int("from", 0, "skip sessions with index < from")
	_ = flag.Duration("quiet", 0, "unused")
	_ = flag.Int64("seed", 1, "unused")
	flag.Parse()
	var si, sn int
	fmt.Sscanf(*shard, "%d/%d", &si, &sn)
	f, err := os.Open(*in)
	if err != nil {
		fmt.Fprintln(os.Stderr, err)
		os.Exit(2)
	}
	of, _ := os.OpenFile(*out, os.O_APPEND|os.O_CREATE|os.O_WRONLY, 0o644)
	jf, _ := os.OpenFile(*journal, os.O_APPEND|os.O_CREATE|os.O_WRONLY, 0o644)
	sc := bufio.NewScanner(f)
	sc.Buffer(make([]byte, 1<<20), 1<<26)
	i := -1
	for sc.Scan() {
		line := sc.Bytes()
		if len(strings.TrimSpace(string(line))) == 0 {
			continue
		}
		i++
		if i%sn != si || i < *from {
			continue
		}
		var s Session
		if err := json.Unmarshal(line, &s); err != nil {
			fmt.Fprintf(os.Stderr, "driver: bad session line %d: %v\n", i, err)
			os.Exit(2)
		}
		fmt.Fprintf(jf, "%d %d\n", i, s.ID)
		var evs []N
		if s.Lines != nil {
			evs = runLines(&s)
		} else {
			evs = runCase(&s)
		}
		var sb strings.Builder
		for _, e := range evs {
			b, _ := json.Marshal(e)
			sb.Write(b)
			sb.WriteByte('\n')
		}
		of.WriteString(sb.String())
		fmt.Fprintf(jf, "done %d\n", i)
	}
}
