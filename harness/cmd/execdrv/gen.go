package main

import (
	"bufio"
	"encoding/json"
	"fmt"
	"gverif/dispatch"
	"math/rand"
	"os"
)

var allMethods = []string{
	"Execute", "ExecuteWithStopTagDirect", "ExecuteConcurrent", "ExecuteMixModel",
	"ExecuteMixModelWithStopTagDirect", "ExecuteSelectedRules",
	"ExecuteSelectedRulesWithControl", "ExecuteSelectedRulesWithControlAsGivenSortedName",
	"ExecuteSelectedRulesWithControlAndStopTag",
	"ExecuteSelectedRulesWithControlAndStopTagAsGivenSortedName",
	"ExecuteSelectedRulesConcurrent", "ExecuteSelectedRulesMixModel",
	"ExecuteInverseMixModel", "ExecuteSelectedRulesInverseMixModel",
	"ExecuteNSortMConcurrent", "ExecuteNConcurrentMSort", "ExecuteNConcurrentMConcurrent",
	"ExecuteSelectedNSortMConcurrent", "ExecuteSelectedNConcurrentMSort",
	"ExecuteSelectedNConcurrentMConcurrent", "ExecuteDAGModel",
}

var families = map[string][]string{
	"sort": {"Execute", "ExecuteSelectedRules", "ExecuteSelectedRulesWithControl"},
	"mix": {"ExecuteMixModel", "ExecuteInverseMixModel", "ExecuteNSortMConcurrent",
		"ExecuteNConcurrentMSort", "ExecuteNConcurrentMConcurrent", "ExecuteConcurrent",
		"ExecuteSelectedNSortMConcurrent", "ExecuteSelectedNConcurrentMSort",
		"ExecuteSelectedNConcurrentMConcurrent", "ExecuteSelectedRulesMixModel",
		"ExecuteSelectedRulesInverseMixModel"},
	"selected": {"ExecuteSelectedRules", "ExecuteSelectedRulesWithControl",
		"ExecuteSelectedRulesWithControlAsGivenSortedName",
		"ExecuteSelectedRulesWithControlAndStopTag",
		"ExecuteSelectedRulesWithControlAndStopTagAsGivenSortedName",
		"ExecuteSelectedRulesConcurrent", "ExecuteSelectedRulesMixModel",
		"ExecuteSelectedRulesInverseMixModel", "ExecuteSelectedNSortMConcurrent",
		"ExecuteSelectedNConcurrentMSort", "ExecuteSelectedNConcurrentMConcurrent"},
	"dag": {"ExecuteDAGModel"},
	"tag": {"ExecuteWithStopTagDirect", "ExecuteMixModelWithStopTagDirect",
		"ExecuteSelectedRulesWithControlAndStopTag",
		"ExecuteSelectedRulesWithControlAndStopTagAsGivenSortedName"},
	"result": allMethods,
	"all":    allMethods,
}

var seqOnly = map[string]bool{
	"Execute": true, "ExecuteWithStopTagDirect": true, "ExecuteSelectedRules": true,
	"ExecuteSelectedRulesWithControl": true, "ExecuteSelectedRulesWithControlAsGivenSortedName": true,
	"ExecuteSelectedRulesWithControlAndStopTag":                  true,
	"ExecuteSelectedRulesWithControlAndStopTagAsGivenSortedName": true,
}

var isSelected = map[string]bool{
	"ExecuteSelectedRules": true, "ExecuteSelectedRulesWithControl": true,
	"ExecuteSelectedRulesWithControlAsGivenSortedName":           true,
	"ExecuteSelectedRulesWithControlAndStopTag":                  true,
	"ExecuteSelectedRulesWithControlAndStopTagAsGivenSortedName": true,
	"ExecuteSelectedRulesConcurrent":                             true, "ExecuteSelectedRulesMixModel": true,
	"ExecuteSelectedRulesInverseMixModel": true,
}
var isSelNM = map[string]bool{"ExecuteSelectedNSortMConcurrent": true,
	"ExecuteSelectedNConcurrentMSort": true, "ExecuteSelectedNConcurrentMConcurrent": true}
var isNM = map[string]bool{"ExecuteNSortMConcurrent": true, "ExecuteNConcurrentMSort": true,
	"ExecuteNConcurrentMConcurrent": true}
var isTag = map[string]bool{"ExecuteWithStopTagDirect": true, "ExecuteMixModelWithStopTagDirect": true,
	"ExecuteSelectedRulesWithControlAndStopTag":                  true,
	"ExecuteSelectedRulesWithControlAndStopTagAsGivenSortedName": true}

// fault snippets usable as the way a rule fails (deterministic, terminate at once)
var failKinds = []string{"cond-notbool", "break-outside", "continue-outside", "arith-asg", "arith-if", "div-zero", "undef-var",
	"undef-func", "undef-method", "nil-deref", "nil-deref-set", "index-read", "index-write", "store-kind", "panic-method",
	"argcount", "not-nonbool", "cmp-if", "logic-asg", "arith-return", "panic-func-return", "arith-conc", "unexp-return", "panic-three"}

func randSal(r *rand.Rand, style int) int64 {
	switch style {
	case 0: // many ties
		return int64(r.Intn(3) - 1)
	case 1:
		return int64(r.Intn(21) - 10)
	case 2:
		return int64(r.Intn(2000000001) - 1000000000)
	default: // the ends of the 64-bit range: differences that do not fit in 64 bits
		return []int64{9223372036854775807, -9223372036854775807, 9000000000000000000, -9000000000000000000,
			4611686018427387904, -4611686018427387905, 0, 1, -1}[r.Intn(9)]
	}
}

func genCall(r *rand.Rand, fam string, rules []Rule, target string) Call {
	ms := families[fam]
	m := ms[r.Intn(len(ms))]
	c := Call{Method: m, Via: "direct", B: r.Intn(2) == 0, Names: []string{}, Dag: [][]string{}, Beh: map[string]string{}}
	nr := len(rules)
	failP := []float64{0, 0.15, 0.4, 0.9}[r.Intn(4)] // 0.9: nearly every rule fails
	for _, ru := range rules {
		var opts []string
		if ru.Tpl == "B" {
			opts = []string{"topret", "topret", "ret", "retnil"}
		} else {
			opts = []string{"ok", "ok", "ret", "retnil"}
		}
		b := opts[r.Intn(len(opts))]
		if r.Float64() < failP {
			f := []string{"fail", "fail", "failret"}
			if ru.Tpl == "B" {
				f = append(f, "topfail")
			}
			b = f[r.Intn(len(f))]
		}
		c.Beh[ru.Name] = b
	}
	c.TagSet = []string{}
	if isTag[m] || r.Intn(10) == 0 {
		for _, ru := range rules {
			if r.Intn(4) == 0 {
				c.TagSet = append(c.TagSet, ru.Name)
			}
		}
	}
	pickNames := func(k int, unknownP float64) []string {
		perm := r.Perm(nr)
		out := []string{}
		for i := 0; i < k && i < nr; i++ {
			out = append(out, rules[perm[i]].Name)
		}
		if r.Float64() < unknownP {
			pos := r.Intn(len(out) + 1)
			out = append(out[:pos], append([]string{"zz"}, out[pos:]...)...)
			if r.Intn(3) == 0 {
				out = append(out, "yy")
			}
		}
		return out
	}
	switch {
	case isSelected[m]:
		k := 0
		if nr > 0 {
			k = r.Intn(nr + 1)
		}
		c.Names = pickNames(k, 0.3)
	case isNM[m]:
		if nr >= 2 && r.Intn(6) != 0 {
			w := 2 + r.Intn(nr-1)
			c.N = 1 + r.Intn(w-1)
			c.M = w - c.N
		} else {
			c.N = r.Intn(nr+3) - 1
			c.M = r.Intn(nr+3) - 1
		}
	case isSelNM[m]:
		if nr >= 2 && r.Intn(6) != 0 {
			w := 2 + r.Intn(nr-1)
			c.N = 1 + r.Intn(w-1)
			c.M = w - c.N
			c.Names = pickNames(w, 0)
		} else {
			k := r.Intn(nr + 1)
			c.Names = pickNames(k, 0.5)
			c.N = r.Intn(nr+2) - 0
			c.M = r.Intn(nr + 2)
			if r.Intn(2) == 0 && len(c.Names) >= 2 { // right count, unknown name inside
				c.N = 1
				c.M = len(c.Names) - 1
			}
		}
	case m == "ExecuteDAGModel" && nr >= 9 && r.Intn(3) == 0:
		// one wide layer (more rules than any fixed worker count, not a round number) and a layer behind it
		w := 9 + r.Intn(nr-8)
		perm := r.Perm(nr)
		layer := []string{}
		for i := 0; i < w; i++ {
			layer = append(layer, rules[perm[i]].Name)
		}
		c.Dag = append(c.Dag, layer, []string{rules[perm[0]].Name})
	case m == "ExecuteDAGModel":
		nl := r.Intn(5)
		for i := 0; i < nl; i++ {
			w := r.Intn(4)
			layer := []string{}
			for j := 0; j < w; j++ {
				if nr > 0 && r.Intn(6) != 0 {
					layer = append(layer, rules[r.Intn(nr)].Name)
				} else {
					layer = append(layer, "zz")
				}
			}
			c.Dag = append(c.Dag, layer)
		}
	}
	if target == "pool" {
		if _, ok := dispatch.EmOf[m]; ok && r.Intn(3) == 0 {
			if isSelected[m] {
				c.Via = "emSelected"
			} else if r.Intn(2) == 0 {
				c.Via = "em"
			} else {
				c.Via = "emMulti"
			}
			if m == "Execute" {
				c.B = true
			}
		}
	}
	return c
}

func genRandom(n int, fam string, seed int64, path string, target string) {
	r := rand.New(rand.NewSource(seed))
	f, err := os.Create(path)
	if err != nil {
		fmt.Fprintln(os.Stderr, err)
		os.Exit(2)
	}
	w := bufio.NewWriter(f)
	for i := 0; i < n; i++ {
		tgt := target
		if tgt == "mixed" {
			tgt = []string{"engine", "pool"}[r.Intn(2)]
		}
		maxR := []int{3, 6, 12}[r.Intn(3)]
		nr := r.Intn(maxR + 1)
		if tgt == "pool" && nr == 0 {
			nr = 1
		}
		if r.Intn(16) == 0 {
			// big rule sets, around the sizes at which an implementation would batch its goroutines
			nr = []int{16, 17, 18, 32, 33, 34}[r.Intn(6)]
		}
		style := r.Intn(4)
		rules := make([]Rule, nr)
		for j := range rules {
			tpl := "A"
			if r.Intn(4) == 0 {
				tpl = "B"
			}
			rules[j] = Rule{Name: fmt.Sprintf("r%d", j+1), Sal: randSal(r, style), Tpl: tpl}
			if r.Intn(3) == 0 {
				rules[j].FK = failKinds[r.Intn(len(failKinds))]
			}
			rules[j].NoSal = r.Intn(2) == 0
		}
		s := Session{ID: 1000000 + i, Target: tgt, Rules: rules}
		// histories: a call is preceded by other calls on the same engine (state left behind by a call must not leak)
		nc := 1 + r.Intn(2)*r.Intn(4)
		if fam == "result" {
			nc = 2 + r.Intn(3)
		} else if r.Intn(4) == 0 {
			nc = 3 + r.Intn(2) // longer histories: what one management step leaves behind meets the next one
		}
		cur := append([]Rule{}, rules...)
		next := nr
		for j := 0; j < nc; j++ {
			var pre []dispatch.Update
			if j > 0 && r.Intn(3) != 0 {
				switch k := r.Intn(4); {
				case k == 0 && len(cur) > 1: // remove one or two rules
					del := []string{cur[r.Intn(len(cur))].Name}
					if r.Intn(3) == 0 {
						del = append(del, "zz")
					}
					pre = append(pre, dispatch.Update{Op: "remove", Names: del})
					var kept []Rule
					for _, x := range cur {
						if x.Name != del[0] {
							kept = append(kept, x)
						}
					}
					cur = kept
				case k == 1 && len(cur) > 0: // full rebuild with re-drawn saliences
					nw := append([]Rule{}, cur...)
					for i := range nw {
						nw[i].Sal = randSal(r, style)
					}
					pre = append(pre, dispatch.Update{Op: "full", Rules: nw})
					cur = nw
				default: // incremental: new rules and/or replaced rules (same or changed salience)
					var ch []Rule
					for n := 1 + r.Intn(2); n > 0; n-- {
						if len(cur) > 0 && r.Intn(2) == 0 {
							x := cur[r.Intn(len(cur))]
							dup := false
							for _, y := range ch {
								if y.Name == x.Name {
									dup = true
								}
							}
							if dup {
								continue
							}
							if r.Intn(3) != 0 {
								x.Sal = randSal(r, style)
							}
							ch = append(ch, x)
						} else if next < 40 {
							next++
							ch = append(ch, Rule{Name: fmt.Sprintf("r%d", next), Sal: randSal(r, style), Tpl: "A"})
						}
					}
					if len(ch) > 0 {
						pre = append(pre, dispatch.Update{Op: "incr", Rules: ch})
						for _, x := range ch {
							found := false
							for i := range cur {
								if cur[i].Name == x.Name {
									cur[i] = x
									found = true
								}
							}
							if !found {
								cur = append(cur, x)
							}
						}
					}
				}
			}
			if j > 0 && len(cur) >= 2 && r.Intn(3) == 0 {
				// one more incremental text behind whatever came before (also behind a removal): an installed rule that
				// moves (new salience) together with an installed rule that keeps its place (same salience)
				p := r.Perm(len(cur))
				mv, keep := cur[p[0]], cur[p[1]]
				mv.Sal = randSal(r, style)
				ch := []Rule{mv, keep}
				if r.Intn(2) == 0 {
					ch = []Rule{keep, mv}
				}
				pre = append(pre, dispatch.Update{Op: "incr", Rules: ch})
				cur[p[0]] = mv
			}
			c := genCall(r, fam, cur, tgt)
			c.Pre = pre
			if j > 0 && len(pre) > 0 && r.Intn(2) == 0 && len(s.Calls) > 0 {
				// repeat the previous call's method and name list on the changed rule set
				prev := s.Calls[len(s.Calls)-1]
				c.Method, c.Names, c.N, c.M, c.Dag, c.Via = prev.Method, prev.Names, prev.N, prev.M, prev.Dag, prev.Via
				if c.Via != "direct" && c.Method == "Execute" {
					c.B = true
				}
			}
			if !seqOnly[c.Method] && i%5 != 0 {
				s.Gated = true // one session in five runs its parallel models at natural speed
			}
			s.Calls = append(s.Calls, c)
		}
		if r.Intn(8) == 0 {
			s.Gated = true
		}
		s.Burst = s.Gated && r.Intn(2) == 0
		b, _ := json.Marshal(s)
		w.Write(b)
		w.WriteByte('\n')
	}
	w.Flush()
	f.Close()
}
