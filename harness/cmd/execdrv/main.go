// execdrv replays sessions (sequences of execute calls on one engine or pool)
// against the real gengine code and records one ndjson trace per session for
// validation by spec/ExecTrace.tla.
//
//	execdrv -in sessions.ndjson -out traces.ndjson -journal j.txt [-shard i/n] [-quiet 2ms] [-seed s]
//	execdrv -random N -family sort|mix|nm|selected|dag|tag|result|all -seed s -gen sessions.ndjson
//
// The journal receives the id of a session before it is executed, so that a
// process-killing fault (panic inside a fan-out goroutine) is attributed to
// the session that caused it.
package main

import (
	"bufio"
	"encoding/json"
	"flag"
	"fmt"
	"os"
	"sort"
	"strings"
	"time"

	"github.com/bilibili/gengine/builder"
	"github.com/bilibili/gengine/context"
	"github.com/bilibili/gengine/engine"

	"gverif/obs"
)

type Rule struct {
	Name string `json:"name"`
	Sal  int64  `json:"sal"`
	Tpl  string `json:"tpl"` // "A": falls off the end, "B": ends in `return fin(..)`
}

type Call struct {
	Method string            `json:"method"`
	Via    string            `json:"via"` // direct | em | emMulti | emSelected (pool only)
	B      bool              `json:"b"`
	Names  []string          `json:"names"`
	N      int               `json:"n"`
	M      int               `json:"m"`
	Dag    [][]string        `json:"dag"`
	Beh    map[string]string `json:"beh"`
	TagSet []string          `json:"tagset"`
}

type Session struct {
	ID     int    `json:"id"`
	Target string `json:"target"` // engine | pool
	Gated  bool   `json:"gated"`
	Rules  []Rule `json:"rules"`
	Calls  []Call `json:"calls"`
}

func ruleText(rs []Rule) string {
	var sb strings.Builder
	for _, r := range rs {
		n := r.Name
		fmt.Fprintf(&sb, "rule \"%s\" \"desc-%s\" salience %d\nbegin\n", n, n, r.Sal)
		fmt.Fprintf(&sb, "  enter(\"%s\")\n", n)
		fmt.Fprintf(&sb, "  if doTag(\"%s\") { stag.StopTag = true }\n", n)
		fmt.Fprintf(&sb, "  if doFail(\"%s\") { boom(\"%s\") }\n", n, n)
		fmt.Fprintf(&sb, "  if doRet(\"%s\") { v = leaveRet(\"%s\")\n return v }\n", n, n)
		fmt.Fprintf(&sb, "  if doRetNil(\"%s\") { leaveNil(\"%s\")\n return }\n", n, n)
		fmt.Fprintf(&sb, "  if doFailRet(\"%s\") { return boom(\"%s\") }\n", n, n)
		if r.Tpl == "B" {
			fmt.Fprintf(&sb, "  return fin(\"%s\")\n", n)
		} else {
			fmt.Fprintf(&sb, "  leave(\"%s\")\n", n)
		}
		sb.WriteString("end\n")
	}
	return sb.String()
}

// runCtx is the per-call state the injected functions look at.
type runCtx struct {
	o      *obs.Obs
	beh    map[string]string
	tagset map[string]bool
	callNo int
	idx    map[string]int
	stag   *engine.Stag
}

var cur *runCtx // replaced between calls, never during one

var poolCache = map[string]*engine.GenginePool{}
var kcCache = map[string]*builder.RuleBuilder{}

func (c *runCtx) val(name string) int64 { return int64(c.callNo*1000 + c.idx[name] + 1) }

func apis() map[string]interface{} {
	return map[string]interface{}{
		"enter": func(n string) {
			cur.o.EmitStart(obs.Event{"ev": "start", "r": n}, n)
		},
		"doTag":     func(n string) bool { return cur.tagset[n] },
		"doFail":    func(n string) bool { return cur.beh[n] == "fail" },
		"doRet":     func(n string) bool { return cur.beh[n] == "ret" },
		"doRetNil":  func(n string) bool { return cur.beh[n] == "retnil" },
		"doFailRet": func(n string) bool { return cur.beh[n] == "failret" },
		"boom": func(n string) int64 {
			cur.o.EmitEnd(obs.Event{"ev": "end", "r": n, "out": "fail", "val": "", "st": cur.tagset[n]})
			panic("boom " + n)
		},
		"leaveRet": func(n string) int64 {
			v := cur.val(n)
			cur.o.EmitEnd(obs.Event{"ev": "end", "r": n, "out": "ret", "val": fmt.Sprint(v), "st": cur.tagset[n]})
			return v
		},
		"leaveNil": func(n string) {
			cur.o.EmitEnd(obs.Event{"ev": "end", "r": n, "out": "ret", "val": "nil", "st": cur.tagset[n]})
		},
		"leave": func(n string) {
			cur.o.EmitEnd(obs.Event{"ev": "end", "r": n, "out": "ok", "val": "", "st": cur.tagset[n]})
		},
		"fin": func(n string) int64 {
			if cur.beh[n] == "topfail" {
				cur.o.EmitEnd(obs.Event{"ev": "end", "r": n, "out": "fail", "val": "", "st": cur.tagset[n]})
				panic("topfail " + n)
			}
			v := cur.val(n)
			cur.o.EmitEnd(obs.Event{"ev": "end", "r": n, "out": "ret", "val": fmt.Sprint(v), "st": cur.tagset[n]})
			return v
		},
	}
}

func keysOf(m map[string]interface{}) [][]string {
	ks := make([][]string, 0, len(m))
	for k, v := range m {
		s := "nil"
		if v != nil {
			s = fmt.Sprint(v)
		}
		ks = append(ks, []string{k, s})
	}
	sort.Slice(ks, func(i, j int) bool { return ks[i][0] < ks[j][0] })
	return ks
}

func engineCall(g *engine.Gengine, rb *builder.RuleBuilder, c *Call, st *engine.Stag) error {
	switch c.Method {
	case "Execute":
		return g.Execute(rb, c.B)
	case "ExecuteWithStopTagDirect":
		return g.ExecuteWithStopTagDirect(rb, c.B, st)
	case "ExecuteConcurrent":
		return g.ExecuteConcurrent(rb)
	case "ExecuteMixModel":
		return g.ExecuteMixModel(rb)
	case "ExecuteMixModelWithStopTagDirect":
		return g.ExecuteMixModelWithStopTagDirect(rb, st)
	case "ExecuteSelectedRules":
		return g.ExecuteSelectedRules(rb, c.Names)
	case "ExecuteSelectedRulesWithControl":
		return g.ExecuteSelectedRulesWithControl(rb, c.B, c.Names)
	case "ExecuteSelectedRulesWithControlAsGivenSortedName":
		return g.ExecuteSelectedRulesWithControlAsGivenSortedName(rb, c.B, c.Names)
	case "ExecuteSelectedRulesWithControlAndStopTag":
		return g.ExecuteSelectedRulesWithControlAndStopTag(rb, c.B, st, c.Names)
	case "ExecuteSelectedRulesWithControlAndStopTagAsGivenSortedName":
		return g.ExecuteSelectedRulesWithControlAndStopTagAsGivenSortedName(rb, c.B, st, c.Names)
	case "ExecuteSelectedRulesConcurrent":
		return g.ExecuteSelectedRulesConcurrent(rb, c.Names)
	case "ExecuteSelectedRulesMixModel":
		return g.ExecuteSelectedRulesMixModel(rb, c.Names)
	case "ExecuteInverseMixModel":
		return g.ExecuteInverseMixModel(rb)
	case "ExecuteSelectedRulesInverseMixModel":
		return g.ExecuteSelectedRulesInverseMixModel(rb, c.Names)
	case "ExecuteNSortMConcurrent":
		return g.ExecuteNSortMConcurrent(c.N, c.M, rb, c.B)
	case "ExecuteNConcurrentMSort":
		return g.ExecuteNConcurrentMSort(c.N, c.M, rb, c.B)
	case "ExecuteNConcurrentMConcurrent":
		return g.ExecuteNConcurrentMConcurrent(c.N, c.M, rb, c.B)
	case "ExecuteSelectedNSortMConcurrent":
		return g.ExecuteSelectedNSortMConcurrent(c.N, c.M, rb, c.B, c.Names)
	case "ExecuteSelectedNConcurrentMSort":
		return g.ExecuteSelectedNConcurrentMSort(c.N, c.M, rb, c.B, c.Names)
	case "ExecuteSelectedNConcurrentMConcurrent":
		return g.ExecuteSelectedNConcurrentMConcurrent(c.N, c.M, rb, c.B, c.Names)
	case "ExecuteDAGModel":
		return g.ExecuteDAGModel(rb, c.Dag)
	}
	panic("driver: unknown method " + c.Method)
}

var emOf = map[string]int{
	"Execute": engine.SortModel, "ExecuteConcurrent": engine.ConcurrentModel,
	"ExecuteMixModel": engine.MixModel, "ExecuteInverseMixModel": engine.InverseMixModel,
	"ExecuteSelectedRules": engine.SortModel, "ExecuteSelectedRulesConcurrent": engine.ConcurrentModel,
	"ExecuteSelectedRulesMixModel": engine.MixModel, "ExecuteSelectedRulesInverseMixModel": engine.InverseMixModel,
}

func poolCall(p *engine.GenginePool, c *Call, st *engine.Stag) (error, map[string]interface{}) {
	data := map[string]interface{}{"stag": st}
	switch c.Via {
	case "em":
		_ = p.SetExecModel(emOf[c.Method])
		return p.ExecuteRulesWithSpecifiedEM("stag", st, "", nil)
	case "emMulti":
		_ = p.SetExecModel(emOf[c.Method])
		return p.ExecuteRulesWithMultiInputWithSpecifiedEM(data)
	case "emSelected":
		_ = p.SetExecModel(emOf[c.Method])
		return p.ExecuteSelectedWithSpecifiedEM(data, c.Names)
	}
	switch c.Method {
	case "Execute":
		return p.Execute(data, c.B)
	case "ExecuteWithStopTagDirect":
		return p.ExecuteWithStopTagDirect(data, c.B, st)
	case "ExecuteConcurrent":
		return p.ExecuteConcurrent(data)
	case "ExecuteMixModel":
		return p.ExecuteMixModel(data)
	case "ExecuteMixModelWithStopTagDirect":
		return p.ExecuteMixModelWithStopTagDirect(data, st)
	case "ExecuteSelectedRules":
		return p.ExecuteSelectedRules(data, c.Names)
	case "ExecuteSelectedRulesWithControl":
		return p.ExecuteSelectedRulesWithControl(data, c.B, c.Names)
	case "ExecuteSelectedRulesWithControlAsGivenSortedName":
		return p.ExecuteSelectedRulesWithControlAsGivenSortedName(data, c.B, c.Names)
	case "ExecuteSelectedRulesWithControlAndStopTag":
		return p.ExecuteSelectedRulesWithControlAndStopTag(data, c.B, st, c.Names)
	case "ExecuteSelectedRulesWithControlAndStopTagAsGivenSortedName":
		return p.ExecuteSelectedRulesWithControlAndStopTagAsGivenSortedName(data, c.B, st, c.Names)
	case "ExecuteSelectedRulesConcurrent":
		return p.ExecuteSelectedRulesConcurrent(data, c.Names)
	case "ExecuteSelectedRulesMixModel":
		return p.ExecuteSelectedRulesMixModel(data, c.Names)
	case "ExecuteInverseMixModel":
		return p.ExecuteInverseMixModel(data)
	case "ExecuteSelectedRulesInverseMixModel":
		return p.ExecuteSelectedRulesInverseMixModel(data, c.Names)
	case "ExecuteNSortMConcurrent":
		return p.ExecuteNSortMConcurrent(c.N, c.M, c.B, data)
	case "ExecuteNConcurrentMSort":
		return p.ExecuteNConcurrentMSort(c.N, c.M, c.B, data)
	case "ExecuteNConcurrentMConcurrent":
		return p.ExecuteNConcurrentMConcurrent(c.N, c.M, c.B, data)
	case "ExecuteSelectedNSortMConcurrent":
		return p.ExecuteSelectedNSortMConcurrent(c.N, c.M, c.B, c.Names, data)
	case "ExecuteSelectedNConcurrentMSort":
		return p.ExecuteSelectedNConcurrentMSort(c.N, c.M, c.B, c.Names, data)
	case "ExecuteSelectedNConcurrentMConcurrent":
		return p.ExecuteSelectedNConcurrentMConcurrent(c.N, c.M, c.B, c.Names, data)
	case "ExecuteDAGModel":
		return p.ExecuteDAGModel(c.Dag, data)
	}
	panic("driver: unknown method " + c.Method)
}

type outcome struct {
	err    error
	keys   map[string]interface{}
	panicv interface{}
}

func nz(xs []string) []string {
	if xs == nil {
		return []string{}
	}
	return xs
}
func nzd(d [][]string) [][]string {
	out := make([][]string, len(d))
	for i := range d {
		out[i] = nz(d[i])
	}
	return out
}

func runSession(s *Session, quiet time.Duration, seed int64, callTimeout time.Duration) ([]obs.Event, bool) {
	var all []obs.Event
	all = append(all, obs.Event{"ev": "session", "id": s.ID})
	text := ruleText(s.Rules)
	api := apis()
	stag := &engine.Stag{}

	var g *engine.Gengine
	var rb *builder.RuleBuilder
	var pool *engine.GenginePool
	if s.Target == "pool" {
		// one pool per rule text and process: later sessions reuse it (compiling
		// dominates the cost of a session otherwise)
		p, ok := poolCache[text]
		if !ok {
			var err error
			p, err = engine.NewGenginePool(1, 2, engine.SortModel, text, api)
			if err != nil {
				fmt.Fprintf(os.Stderr, "driver: session %d: pool construction failed: %v\n%s\n", s.ID, err, text)
				os.Exit(2)
			}
			poolCache[text] = p
		}
		pool = p
	} else {
		dc := context.NewDataContext()
		for k, v := range api {
			dc.Add(k, v)
		}
		dc.Add("stag", stag)
		rb = builder.NewRuleBuilder(dc)
		if len(s.Rules) > 0 {
			kc, ok := kcCache[text]
			if !ok {
				if err := rb.BuildRuleFromString(text); err != nil {
					fmt.Fprintf(os.Stderr, "driver: session %d: compile failed: %v\n%s\n", s.ID, err, text)
					os.Exit(2)
				}
				kcCache[text] = rb
			} else {
				rb.Kc = kc.Kc
			}
		}
		g = engine.NewGengine()
	}
	idx := map[string]int{}
	rules := make([]map[string]interface{}, 0, len(s.Rules))
	for i, r := range s.Rules {
		idx[r.Name] = i
		rules = append(rules, map[string]interface{}{"name": r.Name, "sal": r.Sal})
	}

	for ci := range s.Calls {
		c := &s.Calls[ci]
		o := obs.New(s.Gated, quiet, seed+int64(s.ID)*131+int64(ci))
		ts := map[string]bool{}
		for _, n := range c.TagSet {
			ts[n] = true
		}
		stag.StopTag = false
		cur = &runCtx{o: o, beh: c.Beh, tagset: ts, callNo: ci + 1, idx: idx, stag: stag}
		all = append(all, obs.Event{"ev": "begin", "method": c.Method, "rules": rules, "b": c.B,
			"names": nz(c.Names), "n": c.N, "m": c.M, "dag": nzd(c.Dag)})
		if s.Gated {
			o.StartController()
		}
		done := make(chan outcome, 1)
		go func() {
			var oc outcome
			defer func() {
				if r := recover(); r != nil {
					oc.panicv = r
				}
				done <- oc
			}()
			if pool != nil {
				oc.err, oc.keys = poolCall(pool, c, stag)
			} else {
				oc.err = engineCall(g, rb, c, stag)
				oc.keys, _ = g.GetRulesResultMap()
			}
		}()
		var oc outcome
		select {
		case oc = <-done:
		case <-time.After(callTimeout):
			o.StopController()
			all = append(all, o.Take()...)
			all = append(all, obs.Event{"ev": "timeout"})
			return all, false
		}
		// the return event takes its place in the log before any gate is opened again
		ret := obs.Event{"ev": "return", "err": oc.err != nil, "keys": keysOf(oc.keys), "panic": oc.panicv != nil}
		if oc.err != nil {
			msg := oc.err.Error()
			if len(msg) > 200 {
				msg = msg[:200]
			}
			ret["msg"] = msg
		}
		if oc.panicv != nil {
			ret["panicmsg"] = fmt.Sprint(oc.panicv)
		}
		o.Emit(ret)
		o.StopController()
		if !o.Drain(callTimeout) {
			all = append(all, o.Take()...)
			all = append(all, obs.Event{"ev": "timeout"})
			return all, false
		}
		all = append(all, o.Take()...)
	}
	return all, true
}

func main() {
	in := flag.String("in", "", "sessions ndjson")
	out := flag.String("out", "", "trace ndjson (appended)")
	journal := flag.String("journal", "", "journal file")
	shard := flag.String("shard", "0/1", "i/n: run sessions with index%n == i")
	from := flag.Int("from", 0, "skip sessions with index < from (index within the shard's input order)")
	quiet := flag.Duration("quiet", 2*time.Millisecond, "quiescence window")
	seed := flag.Int64("seed", 1, "seed")
	ctmo := flag.Duration("calltimeout", 20*time.Second, "per-call watchdog")
	random := flag.Int("random", 0, "generate N random sessions instead of running")
	family := flag.String("family", "all", "random family")
	gen := flag.String("gen", "", "output for -random")
	target := flag.String("target", "mixed", "engine|pool|mixed for -random")
	flag.Parse()

	if *random > 0 {
		genRandom(*random, *family, *seed, *gen, *target)
		return
	}

	var si, sn int
	fmt.Sscanf(*shard, "%d/%d", &si, &sn)
	f, err := os.Open(*in)
	if err != nil {
		fmt.Fprintln(os.Stderr, err)
		os.Exit(2)
	}
	defer f.Close()
	of, err := os.OpenFile(*out, os.O_APPEND|os.O_CREATE|os.O_WRONLY, 0o644)
	if err != nil {
		fmt.Fprintln(os.Stderr, err)
		os.Exit(2)
	}
	defer of.Close()
	jf, err := os.OpenFile(*journal, os.O_APPEND|os.O_CREATE|os.O_WRONLY, 0o644)
	if err != nil {
		fmt.Fprintln(os.Stderr, err)
		os.Exit(2)
	}
	defer jf.Close()

	sc := bufio.NewScanner(f)
	sc.Buffer(make([]byte, 1<<20), 1<<26)
	i := -1
	for sc.Scan() {
		line := sc.Bytes()
		if len(strings.TrimSpace(string(line))) == 0 {
			continue
		}
		i++
		if i%sn != si || i < *from {
			continue
		}
		var s Session
		if err := json.Unmarshal(line, &s); err != nil {
			fmt.Fprintf(os.Stderr, "driver: bad session line %d: %v\n", i, err)
			os.Exit(2)
		}
		fmt.Fprintf(jf, "%d %d\n", i, s.ID)
		evs, ok := runSession(&s, *quiet, *seed, *ctmo)
		var sb strings.Builder
		for _, e := range evs {
			b, _ := json.Marshal(e)
			sb.Write(b)
			sb.WriteByte('\n')
		}
		of.WriteString(sb.String())
		fmt.Fprintf(jf, "done %d\n", i)
		if !ok {
			os.Exit(3) // goroutines are stuck: restart from i+1
		}
	}
}
