// execdrv replays sessions (sequences of execute calls on one engine or pool)
// against the real gengine code and records one ndjson trace per session for
// validation by spec/ExecTrace.tla.
//
//	execdrv -in sessions.ndjson -out traces.ndjson -journal j.txt [-shard i/n] [-quiet 2ms] [-seed s]
//	execdrv -random N -family sort|mix|nm|selected|dag|tag|result|all -seed s -gen sessions.ndjson
//
// The journal receives the id of a session before it is executed, so that a
// process-killing fault (panic inside a fan-out goroutine) is attributed to
// the session that caused it.
package main

import (
	"bufio"
	"encoding/json"
	"flag"
	"fmt"
	"os"
	"sort"
	"strings"
	"time"

	"github.com/bilibili/gengine/builder"
	"github.com/bilibili/gengine/context"
	"github.com/bilibili/gengine/engine"

	"gverif/dispatch"
	"gverif/obs"
)

// Rule: Tpl "A" falls off the end, "B" ends in `return fin(..)`.
type Rule = dispatch.RuleDecl

type Call = dispatch.Call

type Session struct {
	ID     int    `json:"id"`
	Target string `json:"target"` // engine | pool
	Gated  bool   `json:"gated"`
	Burst  bool   `json:"burst"`
	Silent bool   `json:"silent"` // no observer events, no steering (race-detector runs)
	Hooks  bool   `json:"hooks"`  // record the result-map lock status at every result write
	// BadData: every pool request also carries an entry with a nil value and one with an empty key
	BadData bool   `json:"baddata"`
	Rules   []Rule `json:"rules"`
	Calls   []Call `json:"calls"`
}

// legal loops that must simply end (tpl "N:<code>"): the body lengthens the collection it ranges over (reached through
// a pointer), a long but bounded for, nested loops
var benignSnippets = map[string]string{
	"grow-range":     "forRange k := fobj.Items {\n fobj.Grow()\n }",
	"grow-range-map": "forRange k := fobj.MM {\n fobj.PutM()\n }",
	"long-for":       "for k = 0; k < 3000; k += 1 {\n t = k\n }",
	"nested-for":     "for k = 0; k < 30; k += 1 {\n for j = 0; j < 30; j += 1 {\n t = k + j\n }\n }",
	"break-inner":    "for k = 0; k < 300; k += 1 {\n for j = 0; j < 100; j += 1 {\n if j == 40 {\n break\n }\n t = j\n }\n }",
	"range-in-for":   "for k = 0; k < 3; k += 1 {\n forRange j := fobj.Items {\n t = j\n }\n fobj.Grow()\n }",
}

// fault class and syntactic position -> statement(s) that fail at run time (all of them compile)
var faultSnippets = map[string]string{
	"arith-asg":     `t = 1 + "s"`,
	"arith-if":      `if 1 + "s" > 0 { t = 1 }`,
	"arith-elseif":  `if false { t = 0 } else if 2 * "s" > 0 { t = 1 }`,
	"arith-forinit": `for k = 1 - "s"; k < 1; k += 1 { t = 1 }`,
	"arith-forcond": `for k = 0; k < 1 + "s"; k += 1 { t = 1 }`,
	"arith-forstep": `for k = 0; k < 2; k += "s" { t = 1 }`,
	"arith-return":  `return 1 + "s"`,
	"arith-arg":     `ev(1 + "s")`,
	"arith-conc":    "conc {\n t = 1 + \"s\"\n u = 2\n }",
	"div-zero":      `t = 7 / 0`,
	"div-zero-if":   `if 7 / zero > 1 { t = 1 }`,
	"cmp-asg":       `t = 1 < "s"`,
	"cmp-if":        `if "s" > 1 { t = 1 }`,
	"cmp-return":    `return true == 1`,
	"logic-asg":     `t = 1 && true`,
	"logic-if":      `if true || "s" { t = 1 }`,
	"cond-notbool":  `if 1 { t = 1 }`,
	// injected data that is a pointer / interface cycle (var p interface{}; p = &p): no struct behind it, a contained fault
	"cyclic-read":          `t = cyc.Name`,
	"cyclic-write":         `cyc.Name = 1`,
	"cond-notbool-elseif":  `if false { t = 0 } else if 1 { t = 1 }`,
	"cond-notbool-elseif2": `if false { t = 0 } else if zero > 1 { t = 2 } else if "s" { t = 1 } else { t = 3 }`,
	// a pair: one rule binds a local and then dies of a rule-level fault; another rule reads that name, which it never
	// bound: a missing name, whatever the first rule left behind
	"bind-then-panic":       "lk9 = 5\n    if 1 { t = 1 }",
	"read-unbound":          `t = lk9 + 1`,
	"cond-notbool-for":      `for k = 0; 1; k += 1 { t = 1 }`,
	"not-nonbool":           `t = !1`,
	"not-nonbool-if":        `if !fobj.I { t = 1 }`,
	"not-nonbool-return":    `return !"s"`,
	"undef-var":             `t = nosuch + 1`,
	"undef-var-if":          `if nosuch > 1 { t = 1 }`,
	"undef-var-return":      `return nosuch`,
	"undef-var-arg":         `ev(nosuch)`,
	"undef-var-range":       `forRange k := nosuch { t = 1 }`,
	"undef-func":            `nosuchfn(1)`,
	"undef-func-if":         `if nosuchfn(1) { t = 1 }`,
	"undef-method":          `fobj.NoSuch()`,
	"undef-method-asg":      `t = fobj.NoSuch(1)`,
	"undef-three":           `fobj.In.NoSuch()`,
	"undef-field":           `t = fobj.NoField + 1`,
	"undef-field-if":        `if fobj.NoField > 1 { t = 1 }`,
	"undef-field-set":       `fobj.NoField = 1`,
	"undef-obj-set":         `nosuchobj.F = 1`,
	"nil-deref":             `t = nilobj.I`,
	"nil-deref-if":          `if nilobj.I > 1 { t = 1 }`,
	"nil-deref-set":         `nilobj.I = 1`,
	"nil-deref-2":           `t = fobj.NilIn.I`,
	"nil-deref-2-if":        `if fobj.NilIn.I == 0 { t = 1 }`,
	"nil-deref-call":        `fobj.NilIn.M()`,
	"nil-method":            `nilobj.M()`,
	"index-read":            `t = farr[9]`,
	"index-read-if":         `if farr[9] > 1 { t = 1 }`,
	"index-read-return":     `return farr[9]`,
	"index-write":           `farr[9] = 1`,
	"index-empty":           `t = fempty[0]`,
	"index-var":             "big = 99\n    t = farr[big]",
	"index-neg":             `t = farr[-1]`,
	"badkey-kind":           `t = fms[1]`,
	"badkey-kind-set":       `fms[1] = 2`,
	"mapkey-undef":          `t = fms[nosuch]`,
	"index-str":             `t = farr["k"]`,
	"index-nonmap":          `t = fobj["k"]`,
	"argcount":              `ev2(1)`,
	"argcount-more":         `ev(1, 2, 3)`,
	"argkind":               `evint("s")`,
	"argkind-meth":          `fobj.MI("s")`,
	"store-kind":            `fobj.I = "s"`,
	"store-kind-bool":       `fobj.B = 3`,
	"store-value":           `fval.I = 3`,
	"store-scalar":          `fnum = 3`,
	"panic-func":            `boomfn()`,
	"panic-func-if":         `if boomfn() { t = 1 }`,
	"panic-func-arg":        `ev(boomfn())`,
	"panic-func-return":     `return boomfn()`,
	"panic-method":          `fobj.Boom()`,
	"panic-conc":            "conc {\n boomfn()\n t = 1\n fobj.Boom()\n }",
	"nil-func":              `nilfn()`,
	"break-outside":         `break`,
	"continue-outside":      `continue`,
	"unbounded-for":         `for k = 0; k < 1; k += 0 { t = 1 }`,
	"unbounded-nested":      "for k = 0; k < 3; k += 1 {\n for k = 0; k < 1; k += 1 { t = 1 }\n }",
	"unbounded-continue":    `for k = 0; k < 1; k += 0 { continue }`,
	"unbounded-continue-if": "for k = 0; k < 1; k += 0 {\n t = 1\n if k == 0 { continue }\n t = 2\n }",
	"index-write-conc":      "conc {\n farr[9] = 1\n t = 1\n }",
	"index-read-conc":       "conc {\n t = farr[9]\n u = 1\n }",
	"store-kind-conc":       "conc {\n fobj.I = \"s\"\n t = 2\n }",
	"argcount-conc":         "conc {\n ev(1, 2, 3)\n t = 1\n }",
	"argkind-conc":          "conc {\n evint(\"s\")\n t = 1\n }",
	"nil-deref-conc":        "conc {\n t = nilobj.I\n u = 1\n }",
	"nil-func-conc":         "conc {\n nilfn()\n u = 1\n }",
	"undef-func-conc":       "conc {\n nosuchfn(1)\n u = 1\n }",
	"undef-method-conc":     "conc {\n fobj.NoSuch()\n u = 1\n }",
	"panic-method-conc":     "conc {\n fobj.Boom()\n u = 1\n }",
	"panic-three-conc":      "conc {\n fobj.In.Boom()\n u = 1\n }",
	"range-noniter":         `forRange k := fobj { t = 1 }`,
	"range-int":             `forRange k := fnum { t = 1 }`,
	"four-level":            `t = fobj.In.X.Y`,
	"panic-three":           `fobj.In.Boom()`,
	"undef-root-3":          `t = nosuch.In.I`,
	"local-root-3":          "lo = fobj\n    t = lo.NilIn.I",
	"local-root-3-if":       "lo = fobj\n    if lo.NilIn.I > 1 { t = 1 }",
	"unexp-return":          `return fobj.hidden`,
	"unexp-return-local":    "t = fobj.hidden\n    return t",
	"unexp-arg":             `ev(fobj.hidden)`,
	"unexp-set":             `fobj.hidden = 1`,
	"unexp-conc":            "conc {\n fobj.hidden = 1\n u = 1\n }",
}

type FIn struct{ I int64 }

func (f *FIn) M() int64    { return f.I }
func (f *FIn) Boom() int64 { panic("three level method panics") }

type FObj struct {
	I      int64
	B      bool
	In     *FIn
	NilIn  *FIn
	hidden int64
	Items  []int64
	MM     map[string]int64
}

func (f *FObj) Grow() { f.Items = append(f.Items, int64(len(f.Items))) }
func (f *FObj) PutM() { f.MM[fmt.Sprintf("k%d", len(f.MM))] = 1 }

func (f *FObj) M() int64         { return f.I }
func (f *FObj) MI(x int64) int64 { return x }
func (f *FObj) Boom() int64      { panic("method panics") }

type Cnt struct{ I int64 }

func faultData() map[string]interface{} {
	var nilobj *FObj
	var nilfn func() int64
	m := map[string]interface{}{
		"fobj": &FObj{I: 5, In: &FIn{I: 6}, Items: []int64{1, 2}, MM: map[string]int64{"a": 1}}, "nilobj": nilobj, "farr": []int64{1, 2, 3}, "fempty": []int64{},
		"fms": map[string]int64{"k": 1}, "fval": FObj{I: 1}, "fnum": int64(4), "zero": int64(0),
		"boomfn": func() bool { panic("injected function panics") }, "nilfn": nilfn,
		"ev": func(v interface{}) {}, "ev2": func(a, b int64) {}, "evint": func(a int64) {},
	}
	for i := 1; i <= 40; i++ {
		m[fmt.Sprintf("cnt_r%d", i)] = &Cnt{}
	}
	var cyc interface{}
	cyc = &cyc
	m["cyc"] = cyc
	return m
}

func ruleText(rs []Rule) string {
	var sb strings.Builder
	for _, r := range rs {
		n := r.Name
		if r.NoSal && r.Sal == 0 {
			fmt.Fprintf(&sb, "rule \"%s\" \"desc-%s\"\nbegin\n", n, n) // no salience clause: salience 0
		} else {
			fmt.Fprintf(&sb, "rule \"%s\" \"desc-%s\" salience %d\nbegin\n", n, n, r.Sal)
		}
		fmt.Fprintf(&sb, "  enter(\"%s\")\n", n)
		if strings.HasPrefix(r.Tpl, "N:") {
			fmt.Fprintf(&sb, "  %s\n", benignSnippets[r.Tpl[2:]])
		}
		// the stop tag is set before anything in the rule can fail
		fmt.Fprintf(&sb, "  if doTag(\"%s\") { stag.StopTag = true }\n", n)
		if strings.HasPrefix(r.Tpl, "F:") {
			// C09: a fault of the given class and position inside this rule, fired when the call says so
			if _, known := faultSnippets[r.Tpl[2:]]; !known {
				fmt.Fprintf(os.Stderr, "driver: unknown fault code %q\n", r.Tpl[2:])
				os.Exit(2)
			}
			fmt.Fprintf(&sb, "  if doFault(\"%s\") {\n    prefail(\"%s\")\n    %s\n  }\n", n, n, faultSnippets[r.Tpl[2:]])
		}
		if snip, ok := faultSnippets[r.FK]; ok {
			// the rule fails through a real fault of this class instead of a panicking function
			fmt.Fprintf(&sb, "  if doFail(\"%s\") {\n    prefail(\"%s\")\n    %s\n  }\n", n, n, snip)
		} else {
			fmt.Fprintf(&sb, "  if doFail(\"%s\") { boom(\"%s\") }\n", n, n)
		}
		if r.RK == "loop" {
			// the returned value is an injected field that the step of the enclosing loop would change
			fmt.Fprintf(&sb, "  if doRet(\"%s\") {\n    for cnt_%s.I = 0; cnt_%s.I < 5; cnt_%s.I += 1 {\n      if cnt_%s.I == 2 {\n        leaveRetV(\"%s\", 2)\n        return cnt_%s.I\n      }\n    }\n  }\n", n, n, n, n, n, n, n)
		} else if r.RK == "range" {
			// the return is the whole body of a forRange (the "first key" idiom)
			fmt.Fprintf(&sb, "  if doRet(\"%s\") {\n    forRange rk := farr {\n      return leaveRet(\"%s\")\n    }\n  }\n", n, n)
		} else {
			fmt.Fprintf(&sb, "  if doRet(\"%s\") { v = leaveRet(\"%s\")\n return v }\n", n, n)
		}
		fmt.Fprintf(&sb, "  if doRetNil(\"%s\") { leaveNil(\"%s\")\n return }\n", n, n)
		fmt.Fprintf(&sb, "  if doFailRet(\"%s\") { return boom(\"%s\") }\n", n, n)
		if r.Tpl == "B" {
			fmt.Fprintf(&sb, "  return fin(\"%s\")\n", n)
		} else {
			fmt.Fprintf(&sb, "  leave(\"%s\")\n", n)
		}
		sb.WriteString("end\n")
	}
	return sb.String()
}

// runCtx is the per-call state the injected functions look at.
type runCtx struct {
	o      *obs.Obs
	beh    map[string]string
	tagset map[string]bool
	callNo int
	idx    map[string]int
	stag   *engine.Stag
}

var cur *runCtx // replaced between calls, never during one

var installHooks = func(on bool) {} // replaced in hook_verif.go (build tag verif)

var poolCache = map[string]*engine.GenginePool{}
var kcCache = map[string]*builder.RuleBuilder{}

func (c *runCtx) val(name string) int64 {
	n := 0
	fmt.Sscanf(strings.TrimLeft(name, "r"), "%d", &n)
	return int64(c.callNo*1000 + n)
}

func apis() map[string]interface{} {
	return map[string]interface{}{
		"enter": func(n string) {
			cur.o.EmitStart(obs.Event{"ev": "start", "r": n}, n)
		},
		"doTag":   func(n string) bool { return cur.tagset[n] },
		"doFault": func(n string) bool { return cur.beh[n] == "fault" },
		"prefail": func(n string) {
			// the fault follows: the end of this execution is logged as failed before it happens
			cur.o.EmitEnd(obs.Event{"ev": "end", "r": n, "out": "fail", "val": "", "st": cur.tagset[n], "want": cur.beh[n]})
		},
		"doFail":    func(n string) bool { return cur.beh[n] == "fail" },
		"doRet":     func(n string) bool { return cur.beh[n] == "ret" },
		"doRetNil":  func(n string) bool { return cur.beh[n] == "retnil" },
		"doFailRet": func(n string) bool { return cur.beh[n] == "failret" },
		"boom": func(n string) int64 {
			cur.o.EmitEnd(obs.Event{"ev": "end", "r": n, "out": "fail", "val": "", "st": cur.tagset[n], "want": cur.beh[n]})
			panic("boom " + n)
		},
		"leaveRet": func(n string) int64 {
			v := cur.val(n)
			cur.o.EmitEnd(obs.Event{"ev": "end", "r": n, "out": "ret", "val": fmt.Sprint(v), "st": cur.tagset[n], "want": cur.beh[n]})
			return v
		},
		"leaveRetV": func(n string, v int64) {
			cur.o.EmitEnd(obs.Event{"ev": "end", "r": n, "out": "ret", "val": fmt.Sprint(v), "st": cur.tagset[n], "want": cur.beh[n]})
		},
		"leaveNil": func(n string) {
			cur.o.EmitEnd(obs.Event{"ev": "end", "r": n, "out": "ret", "val": "nil", "st": cur.tagset[n], "want": cur.beh[n]})
		},
		"leave": func(n string) {
			cur.o.EmitEnd(obs.Event{"ev": "end", "r": n, "out": "ok", "val": "", "st": cur.tagset[n], "want": cur.beh[n]})
		},
		"fin": func(n string) int64 {
			if cur.beh[n] == "topfail" {
				cur.o.EmitEnd(obs.Event{"ev": "end", "r": n, "out": "fail", "val": "", "st": cur.tagset[n], "want": cur.beh[n]})
				panic("topfail " + n)
			}
			v := cur.val(n)
			cur.o.EmitEnd(obs.Event{"ev": "end", "r": n, "out": "ret", "val": fmt.Sprint(v), "st": cur.tagset[n], "want": cur.beh[n]})
			return v
		},
	}
}

func keysOf(m map[string]interface{}) [][]string {
	ks := make([][]string, 0, len(m))
	for k, v := range m {
		s := "nil"
		if v != nil {
			s = fmt.Sprint(v)
		}
		ks = append(ks, []string{k, s})
	}
	sort.Slice(ks, func(i, j int) bool { return ks[i][0] < ks[j][0] })
	return ks
}

type outcome struct {
	err    error
	keys   map[string]interface{}
	panicv interface{}
}

func nz(xs []string) []string {
	if xs == nil {
		return []string{}
	}
	return xs
}
func nzd(d [][]string) [][]string {
	out := make([][]string, len(d))
	for i := range d {
		out[i] = nz(d[i])
	}
	return out
}

func runSession(s *Session, quiet time.Duration, seed int64, callTimeout time.Duration) ([]obs.Event, bool) {
	var all []obs.Event
	all = append(all, obs.Event{"ev": "session", "id": s.ID})
	installHooks(s.Hooks)
	text := ruleText(s.Rules)
	api := apis()
	for k, v := range faultData() {
		api[k] = v
	}
	stag := &engine.Stag{}

	var g *engine.Gengine
	var rb *builder.RuleBuilder
	var pool *engine.GenginePool
	mutates := false
	for _, c := range s.Calls {
		if len(c.Pre) > 0 {
			mutates = true
		}
	}
	if s.Target == "pool" {
		// one pool per rule text and process: later sessions reuse it (compiling
		// dominates the cost of a session otherwise); never when the session
		// changes the rule set
		p, ok := poolCache[text]
		if mutates {
			ok = false
		}
		if !ok {
			var err error
			p, err = engine.NewGenginePool(1, 2, engine.SortModel, text, api)
			if err != nil {
				fmt.Fprintf(os.Stderr, "driver: session %d: pool construction failed: %v\n%s\n", s.ID, err, text)
				os.Exit(2)
			}
			if !mutates {
				poolCache[text] = p
			}
		}
		pool = p
	} else {
		dc := context.NewDataContext()
		for k, v := range api {
			dc.Add(k, v)
		}
		dc.Add("stag", stag)
		rb = builder.NewRuleBuilder(dc)
		if len(s.Rules) > 0 {
			kc, ok := kcCache[text]
			if mutates {
				ok = false
			}
			if !ok {
				if err := rb.BuildRuleFromString(text); err != nil {
					fmt.Fprintf(os.Stderr, "driver: session %d: compile failed: %v\n%s\n", s.ID, err, text)
					os.Exit(2)
				}
				if !mutates {
					kcCache[text] = rb
				}
			} else {
				rb.Kc = kc.Kc
			}
		}
		g = engine.NewGengine()
	}
	idx := map[string]int{}
	rules := make([]map[string]interface{}, 0, len(s.Rules))
	for i, r := range s.Rules {
		idx[r.Name] = i
		rules = append(rules, map[string]interface{}{"name": r.Name, "sal": r.Sal})
	}

	curRules := append([]Rule{}, s.Rules...)
	var kept []keptRes
	for ci := range s.Calls {
		c := &s.Calls[ci]
		for _, u := range c.Pre {
			var err error
			switch u.Op {
			case "incr":
				if pool != nil {
					err = pool.UpdatePooledRulesIncremental(ruleText(u.Rules))
				} else {
					err = rb.BuildRuleWithIncremental(ruleText(u.Rules))
				}
				for _, nr := range u.Rules {
					found := false
					for i := range curRules {
						if curRules[i].Name == nr.Name {
							curRules[i] = nr
							found = true
						}
					}
					if !found {
						curRules = append(curRules, nr)
					}
				}
			case "full":
				if pool != nil {
					err = pool.UpdatePooledRules(ruleText(u.Rules))
				} else {
					err = rb.BuildRuleFromString(ruleText(u.Rules))
				}
				curRules = append([]Rule{}, u.Rules...)
			case "remove":
				if pool != nil {
					err = pool.RemoveRules(u.Names)
				} else {
					err = rb.RemoveRules(u.Names)
				}
				var kept []Rule
				for _, r := range curRules {
					del := false
					for _, n := range u.Names {
						if n == r.Name {
							del = true
						}
					}
					if !del {
						kept = append(kept, r)
					}
				}
				curRules = kept
			}
			if err != nil {
				fmt.Fprintf(os.Stderr, "driver: session %d: update %s failed: %v\n", s.ID, u.Op, err)
				os.Exit(2)
			}
		}
		// the arguments as the caller wrote them (the engine must not change the caller's slices: with rep > 0 the
		// very same slices are handed in again and the log keeps describing the call by the pristine copy)
		pristineNames := append([]string{}, c.Names...)
		pristineDag := make([][]string, len(c.Dag))
		for i := range c.Dag {
			pristineDag[i] = append([]string{}, c.Dag[i]...)
		}
		for rep := 0; rep <= c.Rep; rep++ {
			rules = make([]map[string]interface{}, 0, len(curRules))
			for _, r := range curRules {
				rules = append(rules, map[string]interface{}{"name": r.Name, "sal": r.Sal})
			}
			o := obs.New(s.Gated, quiet, seed+int64(s.ID)*131+int64(ci))
			o.Burst = s.Burst
			o.Silent = s.Silent
			ts := map[string]bool{}
			for _, n := range c.TagSet {
				ts[n] = true
			}
			stag.StopTag = false
			cur = &runCtx{o: o, beh: c.Beh, tagset: ts, callNo: ci + 1, idx: idx, stag: stag}
			all = append(all, obs.Event{"ev": "begin", "method": c.Method, "rules": rules, "b": c.B,
				"names": nz(pristineNames), "n": c.N, "m": c.M, "dag": nzd(pristineDag)})
			if s.Gated {
				o.StartController()
			}
			done := make(chan outcome, 1)
			go func() {
				var oc outcome
				defer func() {
					if r := recover(); r != nil {
						oc.panicv = r
					}
					done <- oc
				}()
				if pool != nil {
					data := map[string]interface{}{"stag": stag}
					if s.BadData {
						data["nilv"] = nil
						data[""] = int64(1)
					}
					oc.err, oc.keys = dispatch.PoolCall(pool, c, stag, data)
				} else {
					oc.err = dispatch.EngineCall(g, rb, c, stag)
					oc.keys, _ = g.GetRulesResultMap()
				}
			}()
			var oc outcome
			select {
			case oc = <-done:
			case <-time.After(callTimeout):
				o.StopController()
				all = append(all, o.Take()...)
				all = append(all, obs.Event{"ev": "timeout"})
				return all, false
			}
			// the return event takes its place in the log before any gate is opened again
			ret := obs.Event{"ev": "return", "err": oc.err != nil, "keys": keysOf(oc.keys), "panic": oc.panicv != nil, "twin": c.Twin}
			if oc.err != nil {
				msg := oc.err.Error()
				if len(msg) > 200 {
					msg = msg[:200]
				}
				ret["msg"] = msg
			}
			if oc.panicv != nil {
				ret["panicmsg"] = fmt.Sprint(oc.panicv)
			}
			o.Emit(ret)
			o.StopController()
			if !o.Drain(callTimeout) {
				all = append(all, o.Take()...)
				all = append(all, obs.Event{"ev": "timeout"})
				return all, false
			}
			all = append(all, o.Take()...)
			kept = append(kept, keptRes{len(kept) + 1, oc.keys, copyMap(oc.keys)})
		}
	}
	// every result map handed back during the session must still be what it was when its call returned
	for _, k := range kept {
		same := len(k.live) == len(k.copy)
		for kk, v := range k.copy {
			if lv, ok := k.live[kk]; !ok || lv != v {
				same = false
			}
		}
		all = append(all, obs.Event{"ev": "frozen", "call": k.n, "same": same})
	}
	return all, true
}

type keptRes struct {
	n    int
	live map[string]interface{}
	copy map[string]interface{}
}

func copyMap(m map[string]interface{}) map[string]interface{} {
	c := map[string]interface{}{}
	for k, v := range m {
		c[k] = v
	}
	return c
}

func main() {
	in := flag.String("in", "", "sessions ndjson")
	out := flag.String("out", "", "trace ndjson (appended)")
	journal := flag.String("journal", "", "journal file")
	shard := flag.String("shard", "0/1", "i/n: run sessions with index%n == i")
	from := flag.Int("from", 0, "skip sessions with index < from (index within the shard's input order)")
	quiet := flag.Duration("quiet", 2*time.Millisecond, "quiescence window")
	seed := flag.Int64("seed", 1, "seed")
	ctmo := flag.Duration("calltimeout", 20*time.Second, "per-call watchdog")
	random := flag.Int("random", 0, "generate N random sessions instead of running")
	family := flag.String("family", "all", "random family")
	gen := flag.String("gen", "", "output for -random")
	target := flag.String("target", "mixed", "engine|pool|mixed for -random")
	flag.Parse()

	if *random > 0 {
		genRandom(*random, *family, *seed, *gen, *target)
		return
	}

	var si, sn int
	fmt.Sscanf(*shard, "%d/%d", &si, &sn)
	f, err := os.Open(*in)
	if err != nil {
		fmt.Fprintln(os.Stderr, err)
		os.Exit(2)
	}
	defer f.Close()
	of, err := os.OpenFile(*out, os.O_APPEND|os.O_CREATE|os.O_WRONLY, 0o644)
	if err != nil {
		fmt.Fprintln(os.Stderr, err)
		os.Exit(2)
	}
	defer of.Close()
	jf, err := os.OpenFile(*journal, os.O_APPEND|os.O_CREATE|os.O_WRONLY, 0o644)
	if err != nil {
		fmt.Fprintln(os.Stderr, err)
		os.Exit(2)
	}
	defer jf.Close()

	sc := bufio.NewScanner(f)
	sc.Buffer(make([]byte, 1<<20), 1<<26)
	i := -1
	for sc.Scan() {
		line := sc.Bytes()
		if len(strings.TrimSpace(string(line))) == 0 {
			continue
		}
		i++
		if i%sn != si || i < *from {
			continue
		}
		var s Session
		if err := json.Unmarshal(line, &s); err != nil {
			fmt.Fprintf(os.Stderr, "driver: bad session line %d: %v\n", i, err)
			os.Exit(2)
		}
		fmt.Fprintf(jf, "%d %d\n", i, s.ID)
		evs, ok := runSession(&s, *quiet, *seed, *ctmo)
		var sb strings.Builder
		for _, e := range evs {
			b, _ := json.Marshal(e)
			sb.Write(b)
			sb.WriteByte('\n')
		}
		of.WriteString(sb.String())
		fmt.Fprintf(jf, "done %d\n", i)
		if !ok {
			os.Exit(3) // goroutines are stuck: restart from i+1
		}
	}
}
