//go:build verif

package main

import (
	"sync/atomic"

	"github.com/bilibili/gengine/engine"

	"gverif/obs"
)

var hooksOn int32

// with the hooks compiled in, sessions that ask for it record the TryLock status of the
// engine's result-map lock at every write of the result map (C19).  The hook function is
// installed once (never reassigned while goroutines of the pool may still call it).
func init() {
	engine.VerifHook = func(site string, a, b int64) {
		if site == "result_write" && atomic.LoadInt32(&hooksOn) == 1 {
			if c := cur; c != nil {
				c.o.Emit(obs.Event{"ev": "reswrite", "locked": a})
			}
		}
	}
	installHooks = func(on bool) {
		if on {
			atomic.StoreInt32(&hooksOn, 1)
		} else {
			atomic.StoreInt32(&hooksOn, 0)
		}
	}
}
