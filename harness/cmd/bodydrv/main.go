// bodydrv records traces for the specifications about what happens INSIDE rule
// bodies: Locals (C15: rule locals are private to one execution) and Conc
// (C18: conc blocks join before the next statement).
//
//	bodydrv -in sessions.ndjson -out traces.ndjson -journal j.txt [-shard i/n] [-quiet 2ms] [-seed s]
package main

import (
	"bufio"
	"encoding/json"
	"flag"
	"fmt"
	"os"
	"strings"
	"sync"
	"sync/atomic"
	"time"

	"github.com/bilibili/gengine/builder"
	"github.com/bilibili/gengine/context"
	"github.com/bilibili/gengine/engine"

	"gverif/dispatch"
	"gverif/obs"
)

type Op struct {
	K    string `json:"k"`    // W R H WI RI
	Name string `json:"name"` // local name (x,y,z) or injected field (A,B)
}

type LRule struct {
	Name  string `json:"name"`
	Sal   int64  `json:"sal"`
	Ops   []Op   `json:"ops"`
	NoAsg bool   `json:"noasg"` // body without any assignment statement: locals are bound by forRange only (ops FR R H RI)
	Ret   bool   `json:"ret"`   // the rule ends with `return <value>` (after its last operation)
}

type Child struct {
	ID    string `json:"id"`
	Kind  string `json:"kind"` // asgL asgI func meth three
	Fails bool   `json:"fails"`
	Val   int64  `json:"val"`
	// FailsQ: on a pool with several requests running the block at once, the child fails only in this request (0: in all)
	FailsQ int64 `json:"failsq"`
}

type Session struct {
	ID       int             `json:"id"`
	Kind     string          `json:"kind"`   // locals | conc
	Target   string          `json:"target"` // engine | pool
	Gated    bool            `json:"gated"`
	Silent   bool            `json:"silent"`
	Parallel bool            `json:"parallel"` // locals on pool: issue all calls concurrently
	PoolMin  int64           `json:"poolmin"`
	PoolMax  int64           `json:"poolmax"`
	Rules    []LRule         `json:"rules"`
	Calls    []dispatch.Call `json:"calls"`
	Blocks   [][]Child       `json:"blocks"`
	Nest     string          `json:"nest"` // conc: plain | if | for
	Pre      bool            `json:"pre"`  // conc: the locals the children assign already exist before the block
	Twin     bool            `json:"twin"`  // conc, silent (race detector) runs only: a second rule with the same body (own object), run at the same time
	Quiet    []int           `json:"quiet"` // conc: blocks (1-based) followed directly by the next block, no statement between
	Dups     []int           `json:"dups"`  // conc: per block, copies of one identical statement (obj.Bump()) among its children
	NReq     int             `json:"nreq"` // conc on a pool: this many requests run the body at the same time
}

// ---------------------------------------------------------------- locals

func localsText(rs []LRule) string {
	var sb strings.Builder
	for ri, r := range rs {
		fld := string("ABC"[ri%3]) // WF: every rule has an injected field of its own
		fmt.Fprintf(&sb, "rule \"%s\" \"d\" salience %d\nbegin\n", r.Name, r.Sal)
		if r.NoAsg {
			// no assignment statement anywhere: the execution id is looked up by (rule, request)
			fmt.Fprintf(&sb, "  enterq(\"%s\", q)\n", r.Name)
			for i, op := range r.Ops {
				n := i + 1
				switch op.K {
				case "FR":
					fmt.Fprintf(&sb, "  forRange %s := fr_%s {\n    opq(\"%s\", q, %d, %s)\n  }\n", op.Name, r.Name, r.Name, n, op.Name)
				case "R":
					fmt.Fprintf(&sb, "  opq(\"%s\", q, %d, %s)\n", r.Name, n, op.Name)
				case "H":
					fmt.Fprintf(&sb, "  holdq(\"%s\", q, %d)\n", r.Name, n)
				case "RI":
					fmt.Fprintf(&sb, "  opq(\"%s\", q, %d, inj.%s)\n", r.Name, n, op.Name)
				default:
					panic("operation " + op.K + " needs an assignment")
				}
			}
			fmt.Fprintf(&sb, "  finq(\"%s\", q)\nend\n", r.Name)
			continue
		}
		fmt.Fprintf(&sb, "  e = enter(\"%s\", q)\n", r.Name)
		for i, op := range r.Ops {
			n := i + 1
			switch op.K {
			case "W":
				fmt.Fprintf(&sb, "  %s = wr(e, %d)\n", op.Name, n)
			case "R":
				fmt.Fprintf(&sb, "  t%d = %s\n  rd(e, %d, t%d)\n", n, op.Name, n, n)
			case "H":
				fmt.Fprintf(&sb, "  hold(e, %d)\n", n)
			case "CF":
				fmt.Fprintf(&sb, "  conc {\n    %s = wrhold(e, %d)\n    boomc()\n  }\n", op.Name, n)
			case "WF":
				// the field gets a value of this execution, the local is bound from the field (an addressable scalar)
				// and read back at once: that value is what the local holds from now on
				fmt.Fprintf(&sb, "  inj.%s = wrq2(e, %d)\n  %s = inj.%s\n  rd(e, %d, %s)\n", fld, n, op.Name, fld, n, op.Name)
			case "WM":
				fmt.Fprintf(&sb, "  %s = mkobj(e, %d)\n", op.Name, n)
			case "RM":
				if n%2 == 0 {
					// ... or a field of the object in the local is read through the dotted name
					fmt.Fprintf(&sb, "  rd(e, %d, %s.V)\n", n, op.Name)
				} else {
					fmt.Fprintf(&sb, "  %s.Tell(e, %d)\n", op.Name, n)
				}
			case "WN":
				fmt.Fprintf(&sb, "  %s = mkfn(e, %d)\n", op.Name, n)
			case "RN":
				// the function value held in the local is called; the closure tells which one it is
				fmt.Fprintf(&sb, "  %s(e, %d)\n", op.Name, n)
			case "CW":
				fmt.Fprintf(&sb, "  conc {\n    %s = wrhold(e, %d)\n    noopc()\n  }\n", op.Name, n)
			case "T":
				fmt.Fprintf(&sb, "  stag.StopTag = tagv(e, %d)\n", n)
			case "P":
				// logged, then a non-boolean condition: a panic that only the rule-level recover turns into an error
				fmt.Fprintf(&sb, "  rd(e, %d, 0)\n  if notb() {\n    zz%d = 1\n  }\n", n, n)
			case "WI":
				fmt.Fprintf(&sb, "  inj.%s = wr(e, %d)\n", op.Name, n)
			case "WP":
				// a plain name: a local of the execution, or the caller's cell in a call that injects it
				fmt.Fprintf(&sb, "  %s = wr(e, %d)\n", op.Name, n)
			case "RP":
				fmt.Fprintf(&sb, "  rdp(e, %d, %s)\n", n, op.Name)
			case "RI":
				fmt.Fprintf(&sb, "  rd(e, %d, inj.%s)\n", n, op.Name)
			}
		}
		if r.Ret {
			sb.WriteString("  fin(e)\n  return e + 1\nend\n")
		} else {
			sb.WriteString("  fin(e)\nend\n")
		}
	}
	return sb.String()
}

type LObj struct{ V int64 }

func (o *LObj) Tell(e int64, i int64) {
	theObs.Emit(obs.Event{"ev": "eop", "e": e, "i": i, "val": o.V})
}

type Inj struct {
	A int64
	B int64
	C int64
}

var theObs *obs.Obs
var execCounter int64
var qmu sync.Mutex
var qexec = map[string]int64{} // "rule/request" -> execution id (assignment-free rules)

func qkey(r string, q int64) string { return fmt.Sprintf("%s/%d", r, q) }
func qget(r string, q int64) int64 {
	qmu.Lock()
	defer qmu.Unlock()
	return qexec[qkey(r, q)]
}

// the per-request map every assignment-free rule ranges over: one key, distinct per (request, rule)
func frMaps(rs []LRule, q int64) map[string]interface{} {
	m := map[string]interface{}{}
	for i, r := range rs {
		if r.NoAsg {
			m["fr_"+r.Name] = map[int64]int64{q*1000 + int64(i) + 1: 1}
		}
	}
	return m
}

func localsAPI() map[string]interface{} {
	return map[string]interface{}{
		"enter": func(r string, q int64) int64 {
			e := atomic.AddInt64(&execCounter, 1)
			theObs.EmitStart(obs.Event{"ev": "estart", "e": e, "r": r, "q": q}, r)
			return e
		},
		"wr": func(e int64, i int64) int64 {
			v := e*100 + i
			theObs.Emit(obs.Event{"ev": "eop", "e": e, "i": i, "val": v})
			return v
		},
		"rd": func(e int64, i int64, v int64) {
			theObs.Emit(obs.Event{"ev": "eop", "e": e, "i": i, "val": v})
		},
		"rdp": func(e int64, i int64, v interface{}) {
			var x int64
			switch t := v.(type) {
			case *int64:
				x = *t
			case int64:
				x = t
			default:
				x = -1
			}
			theObs.Emit(obs.Event{"ev": "eop", "e": e, "i": i, "val": x})
		},
		"wrhold": func(e int64, i int64) int64 {
			v := e*100 + i
			theObs.Hold(obs.Event{"ev": "eop", "e": e, "i": i, "val": v}, "wrhold")
			return v
		},
		"boomc": func() { panic("conc branch fails") },
		"noopc": func() {},
		"notb":  func() int64 { return 1 },
		// WF: a value for the injected field, not logged (the read-back logs what the local got)
		"wrq2": func(e int64, i int64) int64 { return e*100 + i },
		// WM / RM: a fresh object bound to a local, and a method that tells which object it ran on
		"mkobj": func(e int64, i int64) *LObj {
			v := e*100 + i
			theObs.Emit(obs.Event{"ev": "eop", "e": e, "i": i, "val": v})
			return &LObj{V: v}
		},
		"mkfn": func(e int64, i int64) func(int64, int64) {
			v := e*100 + i
			theObs.Emit(obs.Event{"ev": "eop", "e": e, "i": i, "val": v})
			return func(e2 int64, i2 int64) {
				theObs.Emit(obs.Event{"ev": "eop", "e": e2, "i": i2, "val": v})
			}
		},
		"tagv": func(e int64, i int64) bool {
			theObs.Emit(obs.Event{"ev": "eop", "e": e, "i": i, "val": 0})
			return true
		},
		"hold": func(e int64, i int64) {
			theObs.Hold(obs.Event{"ev": "eop", "e": e, "i": i, "val": 0}, "hold")
		},
		"fin": func(e int64) {
			theObs.EmitEnd(obs.Event{"ev": "eend", "e": e})
		},
		"enterq": func(r string, q int64) {
			e := atomic.AddInt64(&execCounter, 1)
			qmu.Lock()
			qexec[qkey(r, q)] = e
			qmu.Unlock()
			theObs.EmitStart(obs.Event{"ev": "estart", "e": e, "r": r, "q": q}, r)
		},
		"opq": func(r string, q int64, i int64, v int64) {
			theObs.Emit(obs.Event{"ev": "eop", "e": qget(r, q), "i": i, "val": v})
		},
		"holdq": func(r string, q int64, i int64) {
			theObs.Hold(obs.Event{"ev": "eop", "e": qget(r, q), "i": i, "val": 0}, "hold")
		},
		"finq": func(r string, q int64) {
			theObs.EmitEnd(obs.Event{"ev": "eend", "e": qget(r, q)})
		},
	}
}

func runLocals(s *Session, quiet time.Duration, seed int64, tmo time.Duration) ([]obs.Event, bool) {
	all := []obs.Event{{"ev": "session", "id": s.ID}}
	text := localsText(s.Rules)
	api := localsAPI()
	rules := make([]map[string]interface{}, 0)
	for _, r := range s.Rules {
		ops := make([]map[string]interface{}, 0)
		for _, o := range r.Ops {
			ops = append(ops, map[string]interface{}{"k": o.K, "name": o.Name})
		}
		rules = append(rules, map[string]interface{}{"name": r.Name, "ops": ops})
	}
	all = append(all, obs.Event{"ev": "lbegin", "rules": rules})
	atomic.StoreInt64(&execCounter, 0)
	inj := &Inj{}
	o := obs.New(s.Gated, quiet, seed+int64(s.ID)*977)
	o.Silent = s.Silent
	theObs = o

	var g *engine.Gengine
	var rb *builder.RuleBuilder
	var pool *engine.GenginePool
	if s.Target == "pool" {
		mn, mx := s.PoolMin, s.PoolMax
		if mn == 0 {
			mn, mx = 1, 2
		}
		p, err := engine.NewGenginePool(mn, mx, engine.SortModel, text, api)
		if err != nil {
			fmt.Fprintf(os.Stderr, "driver: session %d: pool construction failed: %v\n%s\n", s.ID, err, text)
			os.Exit(2)
		}
		pool = p
	} else {
		dc := context.NewDataContext()
		for k, v := range api {
			dc.Add(k, v)
		}
		dc.Add("inj", inj)
		dc.Add("stag", &engine.Stag{})
		rb = builder.NewRuleBuilder(dc)
		if err := rb.BuildRuleFromString(text); err != nil {
			fmt.Fprintf(os.Stderr, "driver: session %d: compile failed: %v\n%s\n", s.ID, err, text)
			os.Exit(2)
		}
		g = engine.NewGengine()
	}
	if s.Gated {
		o.StartController()
	}
	one := func(ci int) {
		c := &s.Calls[ci]
		q := int64(ci + 1)
		var err error
		var pv interface{}
		var gp *int64
		func() {
			defer func() {
				if r := recover(); r != nil {
					pv = r
				}
			}()
			st := &engine.Stag{}
			if c.Pin {
				gp = new(int64)
				o.Emit(obs.Event{"ev": "lpin", "q": q})
			}
			if pool != nil {
				data := map[string]interface{}{"q": q, "inj": inj, "stag": st}
				if c.Pin {
					data["gp"] = gp
				}
				for k, v := range frMaps(s.Rules, q) {
					data[k] = v
				}
				err, _ = dispatch.PoolCall(pool, c, st, data)
			} else {
				rb.Dc.Add("q", q)
				rb.Dc.Add("stag", st)
				if c.Pin {
					rb.Dc.Add("gp", gp)
				} else {
					rb.Dc.Del("gp")
				}
				for k, v := range frMaps(s.Rules, q) {
					rb.Dc.Add(k, v)
				}
				err = dispatch.EngineCall(g, rb, c, st)
			}
		}()
		ev := obs.Event{"ev": "lreturn", "q": q, "err": err != nil, "panic": pv != nil, "gpv": int64(0)}
		if gp != nil {
			ev["gpv"] = *gp // what the caller finds in the plain name it injected
		}
		if err != nil {
			m := err.Error()
			if len(m) > 160 {
				m = m[:160]
			}
			ev["msg"] = m
		}
		o.Emit(ev)
	}
	done := make(chan struct{})
	go func() {
		if s.Parallel && pool != nil {
			var wg sync.WaitGroup
			for ci := range s.Calls {
				wg.Add(1)
				go func(ci int) { defer wg.Done(); one(ci) }(ci)
			}
			wg.Wait()
		} else {
			for ci := range s.Calls {
				one(ci)
			}
		}
		close(done)
	}()
	ok := true
	select {
	case <-done:
	case <-time.After(tmo):
		ok = false
	}
	o.StopController()
	if ok {
		// an execution that stops at an undefined read never logs its end, so
		// the active count cannot be used here
		o.Settle(time.Millisecond)
	}
	all = append(all, o.Take()...)
	if !ok {
		all = append(all, obs.Event{"ev": "timeout"})
	}
	return all, ok
}

// ------------------------------------------------------------------ conc

type Obj struct {
	F1, F2, F3, F4, F5, F6, F7, F8 int64
	In                             *Inner
	N                              int64 // how often Bump ran
}

func (o *Obj) Bump() { atomic.AddInt64(&o.N, 1) }
type Inner struct{}

var curChildren map[string]Child

// on a pool the child ids arrive as "<request>:<child>"
func splitQ(id string) (int64, string) {
	if i := strings.Index(id, ":"); i > 0 {
		var q int64
		fmt.Sscanf(id[:i], "%d", &q)
		return q, id[i+1:]
	}
	return 0, id
}

func childFails(c Child, q int64) bool { return c.Fails && (c.FailsQ == 0 || c.FailsQ == q) }

func childDo(id string) int64 {
	q, cid := splitQ(id)
	c := curChildren[cid]
	theObs.EmitStart(obs.Event{"ev": "cstart", "c": cid, "q": q}, id)
	if childFails(c, q) {
		theObs.EmitEnd(obs.Event{"ev": "cend", "c": cid, "out": "fail", "q": q})
		panic("child " + id + " fails")
	}
	theObs.EmitEnd(obs.Event{"ev": "cend", "c": cid, "out": "ok", "q": q})
	return c.Val
}

func (o *Obj) Hold(id string) int64   { return childDo(id) }
func (i *Inner) Hold(id string) int64 { return childDo(id) }

func quietOf(s *Session) []int {
	if s.Quiet == nil {
		return []int{}
	}
	return s.Quiet
}

// one entry per block
func dupsOf(s *Session) []int {
	d := make([]int, len(s.Blocks))
	copy(d, s.Dups)
	return d
}

func concText(s *Session) string {
	pooled := s.Target == "pool"
	idx := func(id string) string {
		if pooled {
			return "q + \"" + id + "\""
		}
		return "\"" + id + "\""
	}
	qa := ""
	if pooled {
		qa = "q, "
	}
	var sb strings.Builder
	sb.WriteString("rule \"c\" \"d\" salience 1\nbegin\n  loc = mkloc()\n")
	n := 0
	if s.Pre {
		for _, b := range s.Blocks {
			for _, c := range b {
				n++
				if c.Kind == "asgL" || c.Kind == "asgML" {
					fmt.Fprintf(&sb, "  v%d = 0\n", n)
				}
			}
		}
		n = 0
	}
	var seen []string
	for bi, b := range s.Blocks {
		ind := "  "
		switch s.Nest {
		case "if":
			sb.WriteString("  if yes() {\n")
			ind = "    "
		case "for":
			fmt.Fprintf(&sb, "  for k%d = 0; k%d < 1; k%d += 1 {\n", bi, bi, bi)
			ind = "    "
		}
		sb.WriteString(ind + "conc {\n")
		if bi < len(s.Dups) {
			for k := 0; k < s.Dups[bi]; k++ {
				sb.WriteString(ind + "  obj.Bump()\n") // the same statement, several times: each is a statement of its own
			}
		}
		for _, c := range b {
			n++
			switch c.Kind {
			case "asgL":
				fmt.Fprintf(&sb, "%s  v%d = hold(%s)\n", ind, n, idx(c.ID))
				seen = append(seen, fmt.Sprintf("see(%s\"%s\", v%d)", qa, c.ID, n))
			case "asgI":
				fmt.Fprintf(&sb, "%s  obj.F%d = hold(%s)\n", ind, n, idx(c.ID))
				seen = append(seen, fmt.Sprintf("see(%s\"%s\", obj.F%d)", qa, c.ID, n))
			case "methL":
				fmt.Fprintf(&sb, "%s  loc.Hold(%s)\n", ind, idx(c.ID))
			case "asgML":
				fmt.Fprintf(&sb, "%s  v%d = loc.Hold(%s)\n", ind, n, idx(c.ID))
				seen = append(seen, fmt.Sprintf("see(%s\"%s\", v%d)", qa, c.ID, n))
			case "func":
				fmt.Fprintf(&sb, "%s  hold(%s)\n", ind, idx(c.ID))
			case "meth":
				fmt.Fprintf(&sb, "%s  obj.Hold(%s)\n", ind, idx(c.ID))
			case "three":
				fmt.Fprintf(&sb, "%s  obj.In.Hold(%s)\n", ind, idx(c.ID))
			}
		}
		sb.WriteString(ind + "}\n")
		isQuiet := false
		for _, qb := range s.Quiet {
			if qb == bi+1 {
				isQuiet = true
			}
		}
		if !isQuiet {
			fmt.Fprintf(&sb, "%safter(%s%d, obj.N)\n", ind, qa, bi+1)
			for _, x := range seen {
				sb.WriteString(ind + x + "\n")
			}
		}
		if s.Nest == "if" || s.Nest == "for" {
			sb.WriteString("  }\n")
		}
	}
	sb.WriteString("end\n")
	return sb.String()
}

func runConc(s *Session, quiet time.Duration, seed int64, tmo time.Duration) ([]obs.Event, bool) {
	all := []obs.Event{{"ev": "session", "id": s.ID}}
	o := obs.New(s.Gated, quiet, seed+int64(s.ID)*733)
	o.Silent = s.Silent
	theObs = o
	curChildren = map[string]Child{}
	blocks := make([][]map[string]interface{}, 0)
	for _, b := range s.Blocks {
		bl := make([]map[string]interface{}, 0)
		for _, c := range b {
			curChildren[c.ID] = c
			bl = append(bl, map[string]interface{}{"id": c.ID, "kind": c.Kind, "fails": c.Fails, "val": c.Val})
		}
		blocks = append(blocks, bl)
	}
	if s.Target == "pool" {
		return runConcPool(s, o, tmo)
	}
	all = append(all, obs.Event{"ev": "cbegin", "blocks": blocks, "quiet": quietOf(s), "dups": dupsOf(s)})
	text := concText(s)
	twin := s.Twin && s.Silent
	if twin {
		// two rules with conc blocks of their own running at once: each has its own locals and its own injected object
		t2 := strings.Replace(text, "rule \"c\"", "rule \"c2\"", 1)
		t2 = strings.ReplaceAll(t2, "obj.", "obj2.")
		text += t2
	}
	dc := context.NewDataContext()
	dc.Add("obj2", &Obj{In: &Inner{}})
	dc.Add("hold", childDo)
	dc.Add("yes", func() bool { return true })
	dc.Add("after", func(b int64, n int64) { o.Emit(obs.Event{"ev": "after", "b": b, "bumps": n}) })
	dc.Add("see", func(c string, v int64) { o.Emit(obs.Event{"ev": "see", "c": c, "val": v}) })
	dc.Add("obj", &Obj{In: &Inner{}})
	dc.Add("mkloc", func() *Obj { return &Obj{In: &Inner{}} }) // an object that lives in a rule local
	rb := builder.NewRuleBuilder(dc)
	if err := rb.BuildRuleFromString(text); err != nil {
		fmt.Fprintf(os.Stderr, "driver: session %d: compile failed: %v\n%s\n", s.ID, err, text)
		os.Exit(2)
	}
	g := engine.NewGengine()
	if s.Gated {
		o.StartController()
	}
	done := make(chan struct{})
	go func() {
		var err error
		var pv interface{}
		func() {
			defer func() {
				if r := recover(); r != nil {
					pv = r
				}
			}()
			if twin {
				err = g.ExecuteConcurrent(rb)
			} else {
				err = g.Execute(rb, true)
			}
		}()
		o.Emit(obs.Event{"ev": "creturn", "err": err != nil, "panic": pv != nil})
		close(done)
	}()
	ok := true
	select {
	case <-done:
	case <-time.After(tmo):
		ok = false
	}
	o.StopController()
	if ok && !o.Drain(tmo) {
		ok = false
	}
	all = append(all, o.Take()...)
	if !ok {
		all = append(all, obs.Event{"ev": "timeout"})
	}
	return all, ok
}

// the same body run by several pool requests at the same moment (the instances of a pool share the compiled rule):
// every request's events form a session of their own, validated like a single execution
func runConcPool(s *Session, o *obs.Obs, tmo time.Duration) ([]obs.Event, bool) {
	text := concText(s)
	api := map[string]interface{}{
		"hold": childDo,
		"yes":  func() bool { return true },
		"after": func(q string, b int64, bumps int64) {
			n, _ := splitQ(q + "x")
			o.Emit(obs.Event{"ev": "after", "b": b, "q": n, "bumps": bumps})
		},
		"see": func(q string, c string, v int64) {
			n, _ := splitQ(q + "x")
			o.Emit(obs.Event{"ev": "see", "c": c, "val": v, "q": n})
		},
		"mkloc": func() *Obj { return &Obj{In: &Inner{}} },
	}
	nreq := s.NReq
	if nreq < 1 {
		nreq = 2
	}
	pool, err := engine.NewGenginePool(int64(nreq), int64(nreq)+1, engine.SortModel, text, api)
	if err != nil {
		fmt.Fprintf(os.Stderr, "driver: session %d: pool construction failed: %v\n%s\n", s.ID, err, text)
		os.Exit(2)
	}
	if s.Gated {
		o.StartController()
	}
	var wg sync.WaitGroup
	for q := 1; q <= nreq; q++ {
		wg.Add(1)
		go func(q int64) {
			defer wg.Done()
			var err error
			var pv interface{}
			func() {
				defer func() {
					if r := recover(); r != nil {
						pv = r
					}
				}()
				err, _ = pool.Execute(map[string]interface{}{"q": fmt.Sprintf("%d:", q), "obj": &Obj{In: &Inner{}}}, true)
			}()
			o.Emit(obs.Event{"ev": "creturn", "err": err != nil, "panic": pv != nil, "q": q})
		}(int64(q))
	}
	done := make(chan struct{})
	go func() { wg.Wait(); close(done) }()
	ok := true
	select {
	case <-done:
	case <-time.After(tmo):
		ok = false
	}
	o.StopController()
	if ok && !o.Drain(tmo) {
		ok = false
	}
	evs := o.Take()
	var all []obs.Event
	for q := int64(1); q <= int64(nreq); q++ {
		all = append(all, obs.Event{"ev": "session", "id": s.ID*100 + int(q)})
		blocks := make([][]map[string]interface{}, 0)
		for _, b := range s.Blocks {
			bl := make([]map[string]interface{}, 0)
			for _, c := range b {
				bl = append(bl, map[string]interface{}{"id": c.ID, "kind": c.Kind, "fails": childFails(c, q), "val": c.Val})
			}
			blocks = append(blocks, bl)
		}
		all = append(all, obs.Event{"ev": "cbegin", "blocks": blocks, "quiet": quietOf(s), "dups": dupsOf(s)})
		for _, e := range evs {
			if eq, _ := e["q"].(int64); eq == q {
				all = append(all, e)
			}
		}
		if !ok {
			all = append(all, obs.Event{"ev": "timeout"})
		}
	}
	return all, ok
}

func main() {
	in := flag.String("in", "", "sessions ndjson")
	out := flag.String("out", "", "trace ndjson (appended)")
	journal := flag.String("journal", "", "journal file")
	shard := flag.String("shard", "0/1", "i/n")
	from := flag.Int("from", 0, "skip sessions with index < from")
	quiet := flag.Duration("quiet", 2*time.Millisecond, "quiescence window")
	seed := flag.Int64("seed", 1, "seed")
	ctmo := flag.Duration("calltimeout", 20*time.Second, "watchdog")
	flag.Parse()
	var si, sn int
	fmt.Sscanf(*shard, "%d/%d", &si, &sn)
	f, err := os.Open(*in)
	if err != nil {
		fmt.Fprintln(os.Stderr, err)
		os.Exit(2)
	}
	of, _ := os.OpenFile(*out, os.O_APPEND|os.O_CREATE|os.O_WRONLY, 0o644)
	jf, _ := os.OpenFile(*journal, os.O_APPEND|os.O_CREATE|os.O_WRONLY, 0o644)
	sc := bufio.NewScanner(f)
	sc.Buffer(make([]byte, 1<<20), 1<<26)
	i := -1
	for sc.Scan() {
		line := sc.Bytes()
		if len(strings.TrimSpace(string(line))) == 0 {
			continue
		}
		i++
		if i%sn != si || i < *from {
			continue
		}
		var s Session
		if err := json.Unmarshal(line, &s); err != nil {
			fmt.Fprintf(os.Stderr, "driver: bad session line %d: %v\n", i, err)
			os.Exit(2)
		}
		fmt.Fprintf(jf, "%d %d\n", i, s.ID)
		var evs []obs.Event
		var ok bool
		if s.Kind == "conc" {
			evs, ok = runConc(&s, *quiet, *seed, *ctmo)
		} else {
			evs, ok = runLocals(&s, *quiet, *seed, *ctmo)
		}
		var sb strings.Builder
		for _, e := range evs {
			b, _ := json.Marshal(e)
			sb.Write(b)
			sb.WriteByte('\n')
		}
		of.WriteString(sb.String())
		fmt.Fprintf(jf, "done %d\n", i)
		if !ok {
			os.Exit(3)
		}
	}
}
