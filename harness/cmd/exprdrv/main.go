// exprdrv checks expression evaluation (C01).  Input: shapes enumerated by
// spec/LangExprGen.tla (token string + the tree of the reference parser) and the
// dispatch tables exported from spec/LangExpr.tla.  For every shape the driver
// draws operand kinds and values (all Go numeric kinds, boundary and > 2^53
// integers, negative numbers, mixed int/uint/float, strings, booleans, literals,
// locals, injected fields, @-constants), renders `return <expr>`, runs it on the
// real engine and compares with the tree evaluated through the tables, where the
// driver contributes only the 64-bit machine primitives.
package main

import (
	"bufio"
	"encoding/json"
	"flag"
	"fmt"
	"math"
	"math/rand"
	"os"
	"reflect"
	"strconv"
	"strings"

	"github.com/bilibili/gengine/builder"
	"github.com/bilibili/gengine/context"
	"github.com/bilibili/gengine/engine"
)

type Node struct {
	K  string `json:"k"`
	N  string `json:"n"`
	Op string `json:"op"`
	L  *Node  `json:"l"`
	R  *Node  `json:"r"`
	E  *Node  `json:"e"`
}

type Session struct {
	ID     int      `json:"id"`
	Seed   int64    `json:"seed"`
	Draws  int      `json:"draws"`
	Tokens []string `json:"tokens"`
	Tree   *Node    `json:"tree"`
	Tables string   `json:"tables"`
}

type Val struct {
	C string // int uint float str bool intlike
	I int64
	U uint64
	F float64
	S string
	B bool
}

var tables = map[string]string{} // op|a|b -> primitive

func loadTables(path string) {
	f, err := os.Open(path)
	if err != nil {
		fmt.Fprintln(os.Stderr, "driver: tables:", err)
		os.Exit(2)
	}
	sc := bufio.NewScanner(f)
	for sc.Scan() {
		var r struct{ Op, A, B, Prim string }
		if json.Unmarshal(sc.Bytes(), &r) == nil && r.Op != "" {
			tables[r.Op+"|"+r.A+"|"+r.B] = r.Prim
		}
	}
	f.Close()
}

func cls(v Val) string {
	if v.C == "intlike" {
		return "int"
	}
	return v.C
}

func asF(v Val) float64 {
	switch v.C {
	case "int", "intlike":
		return float64(v.I)
	case "uint":
		return float64(v.U)
	}
	return v.F
}

func bits(v Val) uint64 {
	if v.C == "uint" {
		return v.U
	}
	return uint64(v.I)
}

// exact comparison of two 64-bit integers of either signedness: -1, 0, 1
func cmpExact(a, b Val) int {
	an := a.C != "uint" && a.I < 0
	bn := b.C != "uint" && b.I < 0
	switch {
	case an && !bn:
		return -1
	case !an && bn:
		return 1
	case an && bn:
		if a.I < b.I {
			return -1
		} else if a.I > b.I {
			return 1
		}
		return 0
	}
	x, y := bits(a), bits(b)
	if x < y {
		return -1
	} else if x > y {
		return 1
	}
	return 0
}

func cmpRes(op string, c int) bool {
	switch op {
	case "==":
		return c == 0
	case "!=":
		return c != 0
	case "<":
		return c < 0
	case "<=":
		return c <= 0
	case ">":
		return c > 0
	}
	return c >= 0
}

type evalErr struct{}

// eval applies the exported dispatch tables; the Go code below is only the primitives
func eval(n *Node, env map[string]Val) (Val, bool) {
	switch n.K {
	case "slot":
		return env[n.N], true
	case "par":
		return eval(n.E, env)
	case "not":
		v, ok := eval(n.E, env)
		if !ok || tables["!|"+cls(v)+"|"+cls(v)] != "not" {
			return Val{}, false
		}
		return Val{C: "bool", B: !v.B}, true
	}
	a, ok := eval(n.L, env)
	if !ok {
		return Val{}, false
	}
	b, ok := eval(n.R, env)
	if !ok {
		return Val{}, false
	}
	prim := tables[n.Op+"|"+cls(a)+"|"+cls(b)]
	switch prim {
	case "i64":
		x, y := a.I, b.I
		switch n.Op {
		case "+":
			return Val{C: "int", I: x + y}, true
		case "-":
			return Val{C: "int", I: x - y}, true
		case "*":
			return Val{C: "int", I: x * y}, true
		}
		if y == 0 {
			return Val{}, false
		}
		return Val{C: "int", I: x / y}, true
	case "u64":
		x, y := a.U, b.U
		switch n.Op {
		case "+":
			return Val{C: "uint", U: x + y}, true
		case "-":
			return Val{C: "uint", U: x - y}, true
		case "*":
			return Val{C: "uint", U: x * y}, true
		}
		if y == 0 {
			return Val{}, false
		}
		return Val{C: "uint", U: x / y}, true
	case "mixed64":
		// int with uint: the 64-bit pattern of + - * is the same in both readings; the class is left open
		x, y := bits(a), bits(b)
		switch n.Op {
		case "+":
			return Val{C: "intlike", I: int64(x + y)}, true
		case "-":
			return Val{C: "intlike", I: int64(x - y)}, true
		case "*":
			return Val{C: "intlike", I: int64(x * y)}, true
		}
		if y == 0 {
			return Val{}, false
		}
		// division of an int/uint mix is specified only where both readings agree (operands below 2^63)
		if x >= 1<<63 || y >= 1<<63 {
			unspecified = true
		}
		return Val{C: "intlike", I: int64(x / y)}, true
	case "f64":
		x, y := asF(a), asF(b)
		switch n.Op {
		case "+":
			return Val{C: "float", F: x + y}, true
		case "-":
			return Val{C: "float", F: x - y}, true
		case "*":
			return Val{C: "float", F: x * y}, true
		}
		if y == 0 {
			return Val{}, false
		}
		return Val{C: "float", F: x / y}, true
	case "concat":
		return Val{C: "str", S: a.S + b.S}, true
	case "cmp_exact":
		return Val{C: "bool", B: cmpRes(n.Op, cmpExact(a, b))}, true
	case "cmp_f64":
		x, y := asF(a), asF(b)
		c := 0
		if x < y {
			c = -1
		} else if x > y {
			c = 1
		} else if x != y { // NaN
			return Val{C: "bool", B: n.Op == "!="}, true
		}
		return Val{C: "bool", B: cmpRes(n.Op, c)}, true
	case "cmp_str":
		return Val{C: "bool", B: cmpRes(n.Op, strings.Compare(a.S, b.S))}, true
	case "cmp_bool":
		return Val{C: "bool", B: (a.B == b.B) == (n.Op == "==")}, true
	case "logic":
		if n.Op == "&&" {
			return Val{C: "bool", B: a.B && b.B}, true
		}
		return Val{C: "bool", B: a.B || b.B}, true
	}
	return Val{}, false
}

// ---- grammar validity and typing of a shape

func isMath(n *Node) bool { // may stand where the grammar wants a mathExpression
	switch n.K {
	case "slot":
		return true
	case "par":
		return isMath(n.E)
	case "bin":
		return (n.Op == "+" || n.Op == "-" || n.Op == "*" || n.Op == "/") && isMath(n.L) && isMath(n.R)
	}
	return false
}

func valid(n *Node) bool {
	switch n.K {
	case "slot":
		return true
	case "par", "not":
		return valid(n.E)
	}
	if n.Op == "+" || n.Op == "-" || n.Op == "*" || n.Op == "/" {
		return isMath(n.L) && isMath(n.R)
	}
	return valid(n.L) && valid(n.R)
}

func isArith(op string) bool { return op == "+" || op == "-" || op == "*" || op == "/" }
func isCmp(op string) bool {
	return op == "==" || op == "!=" || op == "<" || op == "<=" || op == ">" || op == ">="
}

func can(n *Node, t string) bool {
	switch n.K {
	case "slot":
		return true
	case "par":
		return can(n.E, t)
	case "not":
		return t == "bool"
	}
	if isArith(n.Op) {
		if t == "num" {
			return true
		}
		return t == "str" && n.Op == "+" && can(n.L, "str") && can(n.R, "str")
	}
	return t == "bool"
}

// assign chooses a type (num/str/bool) for every slot so that the tree is well-typed where possible
func assign(n *Node, t string, r *rand.Rand, out map[string]string) {
	switch n.K {
	case "slot":
		if _, ok := out[n.N]; !ok {
			out[n.N] = t
		}
		return
	case "par":
		assign(n.E, t, r, out)
		return
	case "not":
		assign(n.E, "bool", r, out)
		return
	}
	if isArith(n.Op) {
		tt := "num"
		if t == "str" && can(n, "str") {
			tt = "str"
		}
		assign(n.L, tt, r, out)
		assign(n.R, tt, r, out)
		return
	}
	if isCmp(n.Op) {
		opts := []string{"num", "num", "num"}
		if can(n.L, "str") && can(n.R, "str") {
			opts = append(opts, "str")
		}
		if (n.Op == "==" || n.Op == "!=") && can(n.L, "bool") && can(n.R, "bool") {
			opts = append(opts, "bool")
		}
		tt := opts[r.Intn(len(opts))]
		if !can(n.L, tt) || !can(n.R, tt) {
			tt = "num"
		}
		lt, rt := tt, tt
		if !can(n.L, lt) {
			lt = "bool"
		}
		if !can(n.R, rt) {
			rt = "bool"
		}
		assign(n.L, lt, r, out)
		assign(n.R, rt, r, out)
		return
	}
	lt, rt := "bool", "bool"
	if !can(n.L, "bool") {
		lt = "num"
	}
	if !can(n.R, "bool") {
		rt = "num"
	}
	assign(n.L, lt, r, out)
	assign(n.R, rt, r, out)
}

// ---- operands

type Host struct {
	I8  int8
	I16 int16
	I32 int32
	I64 int64
	I   int
	U8  uint8
	U16 uint16
	U32 uint32
	U64 uint64
	U   uint
	F32 float32
	F64 float64
	S   string
	B   bool
}

var intBound = []int64{0, 1, -1, 2, -2, 3, 7, 10, 100, -100, 127, -128, 255, 32767, -32768, 65535, 2147483647, -2147483648,
	4294967295, 9007199254740992, 9007199254740993, -9007199254740993, 9007199254740991, 9223372036854775807,
	-9223372036854775808, 9223372036854775806, 1 << 62, -(1 << 62), 4611686018427387905}
var uintBound = []uint64{0, 1, 2, 3, 10, 255, 65535, 4294967295, 9007199254740992, 9007199254740993, 9223372036854775807,
	9223372036854775808, 18446744073709551615, 18446744073709551614, 1 << 63, 1<<63 + 1}
var floatBound = []float64{0, 1, -1, 0.5, -0.5, 2.5, 1e10, -1e10, 9007199254740992, 9007199254740993, 1e300, 1.5e-5, 3.25, 100, 0.1}

type operand struct {
	text  string
	val   Val
	local string // "name = literal" to emit before the return
}

func pickNum(r *rand.Rand, h *Host, i int, smallOnly bool) operand {
	// kind of operand: literal, local, injected field
	switch r.Intn(12) {
	case 0, 1: // integer literal (non-negative or negative)
		v := intBound[r.Intn(len(intBound))]
		if r.Intn(2) == 0 {
			v = int64(r.Intn(21) - 10)
		}
		if smallOnly && (v < 0 || v > 1<<40) {
			v = int64(r.Intn(50))
		}
		if v == math.MinInt64 {
			v = math.MinInt64 + 1 // the literal 9223372036854775808 alone does not parse as int64
		}
		return operand{text: strconv.FormatInt(v, 10), val: Val{C: "int", I: v}}
	case 2: // real literal
		if r.Intn(3) == 0 {
			// the other spellings the lexer accepts for a real literal: no integer part, exponents, `1.e2`
			forms := []struct {
				t string
				v float64
			}{{".5", 0.5}, {"0.25", 0.25}, {"1e3", 1000}, {"2.5e-2", 0.025}, {"1.e2", 100}, {".5e1", 5}, {"1E3", 1000}, {"10.0", 10},
				{"123456789.125", 123456789.125}, {"1e15", 1e15}, {"9007199254740993.0", 9007199254740992}, {"4e-3", 0.004}}
			x := forms[r.Intn(len(forms))]
			return operand{text: x.t, val: Val{C: "float", F: x.v}}
		}
		f := floatBound[r.Intn(len(floatBound))]
		if f < 0 && smallOnly {
			f = -f
		}
		s := strconv.FormatFloat(f, 'f', -1, 64)
		if !strings.Contains(s, ".") {
			s += ".0"
		}
		g, _ := strconv.ParseFloat(s, 64)
		return operand{text: s, val: Val{C: "float", F: g}}
	case 3: // local holding an int literal
		v := intBound[r.Intn(len(intBound))]
		if v == math.MinInt64 {
			v++
		}
		n := fmt.Sprintf("v%d", i)
		return operand{text: n, val: Val{C: "int", I: v}, local: n + " = " + strconv.FormatInt(v, 10)}
	case 4:
		v := int8(intBound[r.Intn(len(intBound))])
		h.I8 = v
		return operand{text: hp(i) + ".I8", val: Val{C: "int", I: int64(v)}}
	case 5:
		v := int32(intBound[r.Intn(len(intBound))])
		if r.Intn(2) == 0 {
			w := int16(v)
			h.I16 = w
			return operand{text: hp(i) + ".I16", val: Val{C: "int", I: int64(w)}}
		}
		h.I32 = v
		return operand{text: hp(i) + ".I32", val: Val{C: "int", I: int64(v)}}
	case 6:
		v := intBound[r.Intn(len(intBound))]
		if r.Intn(3) == 0 {
			h.I = int(v)
			return operand{text: hp(i) + ".I", val: Val{C: "int", I: v}}
		}
		h.I64 = v
		return operand{text: hp(i) + ".I64", val: Val{C: "int", I: v}}
	case 7:
		v := uintBound[r.Intn(len(uintBound))]
		if smallOnly && v >= 1<<63 {
			v = uint64(r.Intn(1000))
		}
		if r.Intn(3) == 0 {
			h.U = uint(v)
			return operand{text: hp(i) + ".U", val: Val{C: "uint", U: v}}
		}
		h.U64 = v
		return operand{text: hp(i) + ".U64", val: Val{C: "uint", U: v}}
	case 8:
		v := uintBound[r.Intn(len(uintBound))]
		switch r.Intn(3) {
		case 0:
			h.U8 = uint8(v)
			return operand{text: hp(i) + ".U8", val: Val{C: "uint", U: uint64(uint8(v))}}
		case 1:
			h.U16 = uint16(v)
			return operand{text: hp(i) + ".U16", val: Val{C: "uint", U: uint64(uint16(v))}}
		}
		h.U32 = uint32(v)
		return operand{text: hp(i) + ".U32", val: Val{C: "uint", U: uint64(uint32(v))}}
	case 9:
		f := floatBound[r.Intn(len(floatBound))]
		if !smallOnly && r.Intn(5) == 0 {
			// injected data may hold the special values of float64 / float32 (a comparison involving a float is made
			// in float64: every comparison with a NaN is false except !=)
			f = []float64{math.NaN(), math.Inf(1), math.Inf(-1), math.Copysign(0, -1)}[r.Intn(4)]
		}
		if r.Intn(2) == 0 {
			g := float32(f)
			h.F32 = g
			return operand{text: hp(i) + ".F32", val: Val{C: "float", F: float64(g)}}
		}
		h.F64 = f
		return operand{text: hp(i) + ".F64", val: Val{C: "float", F: f}}
	case 10:
		return operand{text: "@sal", val: Val{C: "int", I: curSal}}
	default:
		return operand{text: "@id", val: Val{C: "int", I: curID}}
	}
}

func hp(i int) string { return fmt.Sprintf("h%d", i) }

var curSal, curID int64
var unspecified bool
var curName, curDesc string

func pickStr(r *rand.Rand, h *Host, i int) operand {
	lits := []string{"a", "b", "ab", "", "B", "abc", "z", "10", "9", "%", "15%", "%d", "a%sb", "%%", "é", "a b"}
	s := lits[r.Intn(len(lits))]
	switch r.Intn(5) {
	case 0:
		h.S = s
		return operand{text: hp(i) + ".S", val: Val{C: "str", S: s}}
	case 1:
		return operand{text: "@name", val: Val{C: "str", S: curName}}
	case 2:
		return operand{text: "@desc", val: Val{C: "str", S: curDesc}}
	case 3:
		n := fmt.Sprintf("s%d", i)
		return operand{text: n, val: Val{C: "str", S: s}, local: n + " = \"" + s + "\""}
	}
	return operand{text: "\"" + s + "\"", val: Val{C: "str", S: s}}
}

func pickBool(r *rand.Rand, h *Host, i int) operand {
	b := r.Intn(2) == 0
	switch r.Intn(3) {
	case 0:
		h.B = b
		return operand{text: hp(i) + ".B", val: Val{C: "bool", B: b}}
	case 1:
		n := fmt.Sprintf("b%d", i)
		return operand{text: n, val: Val{C: "bool", B: b}, local: n + " = " + strconv.FormatBool(b)}
	}
	return operand{text: strconv.FormatBool(b), val: Val{C: "bool", B: b}}
}

// does the tree divide with an int/uint mix?  then keep those operands below 2^63 and non-negative
func hasDiv(n *Node) bool {
	if n == nil {
		return false
	}
	if n.K == "bin" && n.Op == "/" {
		return true
	}
	return hasDiv(n.L) || hasDiv(n.R) || hasDiv(n.E)
}

// integers that differ by one (or only in signedness) beyond 2^53: where a comparison through float64 goes wrong
var near = [][2]Val{
	{{C: "int", I: 9007199254740993}, {C: "int", I: 9007199254740992}},
	{{C: "int", I: 9223372036854775807}, {C: "int", I: 9223372036854775806}},
	{{C: "int", I: -9007199254740993}, {C: "int", I: -9007199254740992}},
	{{C: "uint", U: 18446744073709551615}, {C: "uint", U: 18446744073709551614}},
	{{C: "uint", U: 9223372036854775808}, {C: "int", I: 9223372036854775807}},
	{{C: "int", I: -1}, {C: "uint", U: 18446744073709551615}},
	{{C: "uint", U: 9007199254740993}, {C: "int", I: 9007199254740992}},
	{{C: "int", I: 4611686018427387905}, {C: "int", I: 4611686018427387904}},
}

func slotIndex(n string) int { return int(n[0]-'a') + 1 }

// nearPairs overrides, for some comparisons between two operands, both operands by a near pair
func nearPairs(n *Node, r *rand.Rand, types map[string]string, hosts []*Host, env map[string]Val, text map[string]string) {
	if n == nil {
		return
	}
	if n.K == "bin" && isCmp(n.Op) && n.L.K == "slot" && n.R.K == "slot" && n.L.N != n.R.N &&
		types[n.L.N] == "num" && types[n.R.N] == "num" && env[n.L.N].C != "str" && env[n.R.N].C != "str" &&
		env[n.L.N].C != "bool" && env[n.R.N].C != "bool" && r.Intn(3) == 0 {
		if r.Intn(3) == 0 {
			// a float32 value next to the float64 (or integer) it was rounded from: the comparison is made in float64,
			// so the two differ
			x := []float64{0.1, 0.7, 1.0 / 3, 16777217, 1e-3, 123456.789}[r.Intn(6)]
			f32 := float32(x)
			sides := []*Node{n.L, n.R}
			if r.Intn(2) == 0 {
				sides[0], sides[1] = sides[1], sides[0]
			}
			i, j := slotIndex(sides[0].N), slotIndex(sides[1].N)
			if i >= len(hosts) || j >= len(hosts) {
				return
			}
			hosts[i].F32 = f32
			text[sides[0].N] = hp(i) + ".F32"
			env[sides[0].N] = Val{C: "float", F: float64(f32)}
			if x == 16777217 && r.Intn(2) == 0 {
				hosts[j].I64 = 16777217
				text[sides[1].N] = hp(j) + ".I64"
				env[sides[1].N] = Val{C: "int", I: 16777217}
			} else {
				hosts[j].F64 = x
				text[sides[1].N] = hp(j) + ".F64"
				env[sides[1].N] = Val{C: "float", F: x}
			}
			return
		}
		p := near[r.Intn(len(near))]
		if r.Intn(2) == 0 {
			p[0], p[1] = p[1], p[0]
		}
		for k, sl := range []*Node{n.L, n.R} {
			i := slotIndex(sl.N)
			if i >= len(hosts) {
				return
			}
			v := p[k]
			// the 64-bit kinds of Go are int64 / uint64 and, on this platform, int / uint; each side draws its own
			platform := r.Intn(2) == 0
			if v.C == "uint" {
				if platform {
					hosts[i].U = uint(v.U)
					text[sl.N] = hp(i) + ".U"
				} else {
					hosts[i].U64 = v.U
					text[sl.N] = hp(i) + ".U64"
				}
			} else {
				if platform {
					hosts[i].I = int(v.I)
					text[sl.N] = hp(i) + ".I"
				} else {
					hosts[i].I64 = v.I
					text[sl.N] = hp(i) + ".I64"
				}
			}
			env[sl.N] = v
		}
	}
	nearPairs(n.L, r, types, hosts, env, text)
	nearPairs(n.R, r, types, hosts, env, text)
	nearPairs(n.E, r, types, hosts, env, text)
}

func normalize(v interface{}) (Val, bool) {
	if v == nil {
		return Val{}, false
	}
	rv := reflect.ValueOf(v)
	switch rv.Kind() {
	case reflect.Int, reflect.Int8, reflect.Int16, reflect.Int32, reflect.Int64:
		return Val{C: "int", I: rv.Int()}, true
	case reflect.Uint, reflect.Uint8, reflect.Uint16, reflect.Uint32, reflect.Uint64:
		return Val{C: "uint", U: rv.Uint()}, true
	case reflect.Float32, reflect.Float64:
		return Val{C: "float", F: rv.Float()}, true
	case reflect.String:
		return Val{C: "str", S: rv.String()}, true
	case reflect.Bool:
		return Val{C: "bool", B: rv.Bool()}, true
	}
	return Val{}, false
}

func same(exp, got Val) bool {
	switch exp.C {
	case "intlike":
		return (got.C == "int" || got.C == "uint") && bits(got) == uint64(exp.I)
	case "int":
		return got.C == "int" && got.I == exp.I
	case "uint":
		return got.C == "uint" && got.U == exp.U
	case "float":
		return got.C == "float" && (got.F == exp.F || (math.IsNaN(got.F) && math.IsNaN(exp.F)))
	case "str":
		return got.C == "str" && got.S == exp.S
	case "bool":
		return got.C == "bool" && got.B == exp.B
	}
	return false
}

var repl = map[string][]string{"<": {"<", "<=", ">", ">="}, "==": {"==", "!="}}

func substOps(n *Node, m map[string]string) {
	if n == nil {
		return
	}
	if n.K == "bin" {
		if x, ok := m[n.Op]; ok {
			n.Op = x
		}
	}
	substOps(n.L, m)
	substOps(n.R, m)
	substOps(n.E, m)
}

func clone(n *Node) *Node {
	if n == nil {
		return nil
	}
	c := *n
	c.L, c.R, c.E = clone(n.L), clone(n.R), clone(n.E)
	return &c
}

func runShape(s *Session) []map[string]interface{} {
	out := []map[string]interface{}{{"ev": "session", "id": s.ID}}
	if !valid(s.Tree) {
		out = append(out, map[string]interface{}{"ev": "skip", "why": "an arithmetic operand is not a mathExpression in gengine's grammar"})
		return out
	}
	r := rand.New(rand.NewSource(s.Seed))
	for d := 0; d < s.Draws; d++ {
		// same-behaviour operators stand in for the representatives
		m := map[string]string{"<": repl["<"][r.Intn(4)], "==": repl["=="][r.Intn(2)]}
		tree := clone(s.Tree)
		substOps(tree, m)
		toks := make([]string, len(s.Tokens))
		for i, t := range s.Tokens {
			if x, ok := m[t]; ok {
				t = x
			}
			toks[i] = t
		}
		names := []string{"7", "rule1", "12345", "x y", "-3", "9223372036854775807", "12abc", "2nd", "3.5", "7-eleven", "1e3",
			"1_000", "-3x", "007", " 100 ", "+5", "0x10", "9223372036854775808", "10 20"}
		curName = names[r.Intn(len(names))]
		curDesc = []string{"some desc", "d", "a"}[r.Intn(3)]
		curSal = []int64{0, 5, -7, 1000000}[r.Intn(4)]
		curID = 0
		if v, err := strconv.ParseInt(strings.Trim(curName, " "), 10, 64); err == nil {
			curID = v
		}
		// the rule under test may omit its description and / or salience clause (then @desc is "" and @sal is 0)
		// and may follow another rule in the same text that has both
		omitDesc, omitSal, preceded := r.Intn(4) == 0, r.Intn(4) == 0, r.Intn(2) == 0
		if omitDesc {
			curDesc = ""
		}
		if omitSal {
			curSal = 0
		}
		types := map[string]string{}
		assign(tree, []string{"bool", "num", "num", "str"}[r.Intn(4)], r, types)
		illP := r.Intn(12) == 0 // sometimes an ill-typed operand
		hosts := []*Host{{}, {}, {}, {}, {}, {}}
		env := map[string]Val{}
		text := map[string]string{}
		var locals []string
		small := false && hasDiv(tree)
		i := 0
		for _, slot := range []string{"a", "b", "c", "d", "e"} {
			t, ok := types[slot]
			if !ok {
				continue
			}
			i++
			if illP && r.Intn(3) == 0 {
				t = []string{"bool", "num", "str"}[r.Intn(3)]
			}
			var op operand
			h := hosts[i]
			switch t {
			case "num":
				op = pickNum(r, h, i, small)
			case "str":
				op = pickStr(r, h, i)
			default:
				op = pickBool(r, h, i)
			}
			env[slot] = op.val
			text[slot] = op.text
			if op.local != "" {
				locals = append(locals, op.local)
			}
		}
		nearPairs(tree, r, types, hosts, env, text)
		var sb strings.Builder
		for _, t := range toks {
			if x, ok := text[t]; ok {
				sb.WriteString(x)
			} else {
				sb.WriteString(t)
			}
			sb.WriteString(" ")
		}
		expr := strings.TrimSpace(sb.String())
		src := ""
		if preceded {
			src = "rule \"before\" \"description of the rule before\" salience 77\nbegin\n  zz = 1\nend\n"
		}
		src += fmt.Sprintf("rule \"%s\"", curName)
		if !omitDesc {
			src += fmt.Sprintf(" \"%s\"", curDesc)
		}
		if !omitSal {
			src += fmt.Sprintf(" salience %d", curSal)
		}
		src += "\nbegin\n"
		for _, l := range locals {
			src += "  " + l + "\n"
		}
		src += "  return " + expr + "\nend\n"
		unspecified = false
		exp, okExp := eval(tree, env)
		if unspecified {
			out = append(out, map[string]interface{}{"ev": "case", "ok": true, "skipped": "int/uint division outside [0, 2^63)"})
			continue
		}

		dc := context.NewDataContext()
		for k, h := range hosts {
			dc.Add(hp(k), h)
		}
		rb := builder.NewRuleBuilder(dc)
		rec := map[string]interface{}{"ev": "case", "expr": expr, "text": src}
		if err := rb.BuildRuleFromString(src); err != nil {
			rec["ok"] = false
			rec["why"] = "does not compile: " + err.Error()
			rec["kind"] = "compile"
			out = append(out, rec)
			continue
		}
		g := engine.NewGengine()
		var err error
		var pv interface{}
		func() {
			defer func() {
				if x := recover(); x != nil {
					pv = x
				}
			}()
			err = g.Execute(rb, true)
		}()
		res, _ := g.GetRulesResultMap()
		got, has := res[curName]
		gv, okv := normalize(got)
		rec["expected_err"] = !okExp
		rec["got_err"] = err != nil
		rec["got"] = fmt.Sprintf("%T %v", got, got)
		if okExp {
			rec["expected"] = fmt.Sprintf("%s %v", exp.C, fmtVal(exp))
		}
		switch {
		case pv != nil:
			rec["ok"], rec["kind"], rec["why"] = false, "panic", fmt.Sprint(pv)
		case !okExp:
			// an ill-typed operation or a division by zero makes the rule fail, never yields a value
			ok := err != nil && !has
			rec["ok"] = ok
			if !ok {
				rec["kind"], rec["why"] = "value-instead-of-error", "the reference semantics has no value here"
			}
		case err != nil:
			rec["ok"], rec["kind"], rec["why"] = false, "error-instead-of-value", trunc(err.Error(), 200)
		case !has || !okv:
			rec["ok"], rec["kind"], rec["why"] = false, "no-value", "no result entry"
		default:
			ok := same(exp, gv)
			rec["ok"] = ok
			if !ok {
				rec["kind"], rec["why"] = "wrong-value", "value differs from the reference semantics"
			}
		}
		if rec["ok"] == true {
			delete(rec, "text")
		}
		out = append(out, rec)
	}
	return out
}

func fmtVal(v Val) interface{} {
	switch v.C {
	case "int", "intlike":
		return v.I
	case "uint":
		return v.U
	case "float":
		return v.F
	case "str":
		return v.S
	}
	return v.B
}

func trunc(s string, n int) string {
	if len(s) > n {
		return s[:n]
	}
	return s
}

func main() {
	in := flag.String("in", "", "sessions ndjson")
	out := flag.String("out", "", "trace ndjson (appended)")
	journal := flag.String("journal", "", "journal file")
	shard := flag.String("shard", "0/1", "i/n")
	from := flag.Int("from", 0, "skip sessions with index < from")
	_ = flag.Duration("quiet", 0, "unused")
	_ = flag.Int64("seed", 1, "unused")
	flag.Parse()
	var si, sn int
	fmt.Sscanf(*shard, "%d/%d", &si, &sn)
	f, err := os.Open(*in)
	if err != nil {
		fmt.Fprintln(os.Stderr, err)
		os.Exit(2)
	}
	of, _ := os.OpenFile(*out, os.O_APPEND|os.O_CREATE|os.O_WRONLY, 0o644)
	jf, _ := os.OpenFile(*journal, os.O_APPEND|os.O_CREATE|os.O_WRONLY, 0o644)
	sc := bufio.NewScanner(f)
	sc.Buffer(make([]byte, 1<<20), 1<<26)
	i := -1
	for sc.Scan() {
		line := sc.Bytes()
		if len(strings.TrimSpace(string(line))) == 0 {
			continue
		}
		i++
		if i%sn != si || i < *from {
			continue
		}
		var s Session
		if err := json.Unmarshal(line, &s); err != nil {
			fmt.Fprintf(os.Stderr, "driver: bad session line %d: %v\n", i, err)
			os.Exit(2)
		}
		if len(tables) == 0 {
			loadTables(s.Tables)
		}
		fmt.Fprintf(jf, "%d %d\n", i, s.ID)
		evs := runShape(&s)
		var sb strings.Builder
		for _, e := range evs {
			b, _ := json.Marshal(e)
			sb.Write(b)
			sb.WriteByte('\n')
		}
		of.WriteString(sb.String())
		fmt.Fprintf(jf, "done %d\n", i)
	}
}
