//go:build verif

// pooldrv records traces of the pooled engine for spec/PoolTrace.tla (C06 C07
// C16 C17).  A session builds one pool and interprets a script of steps:
// bursts of concurrent requests, management operations, queries, probes of
// every instance, updates racing with requests (gated at the publish hooks and
// inside rule bodies) and updates triggered from inside a running rule.
package main

import (
	"bufio"
	"bytes"
	"encoding/json"
	"flag"
	"fmt"
	"os"
	"runtime"
	"strconv"
	"strings"
	"sync"
	"sync/atomic"
	"time"

	"github.com/bilibili/gengine/engine"

	"gverif/dispatch"
	"gverif/obs"
)

type RuleV struct {
	Name string `json:"name"`
	Tag  int64  `json:"tag"`
}

type Update struct {
	Kind  string   `json:"kind"` // full incr remove clear badfull badincr
	Rules []RuleV  `json:"rules"`
	Names []string `json:"names"`
}

type Req struct {
	Q      int64      `json:"q"`
	Method string     `json:"method"`
	Via    string     `json:"via"`
	B      bool       `json:"b"`
	N      int        `json:"n"`
	M      int        `json:"m"`
	Names  []string   `json:"names"` // selected names; nil = all
	Dag    [][]string `json:"dag"`
	Keys   []string   `json:"keys"`  // injected keys besides "req"
	Fail   string     `json:"fail"`  // "" | "boom" (panicking function) | "cond" (non-boolean condition)
	NoRet  bool       `json:"noret"` // isolation sessions: no rule of this request returns a value
	NoData bool       `json:"nodata"` // the request passes an empty data map (its rules then fail: nothing is injected)
	Bulk   int        `json:"bulk"`   // this many further entries in the data map that no rule looks at (a big request)
	Tag    bool       `json:"tag"`    // the request's first rule sets the request's stop tag (before it fails, if it does)
	Odd    bool       `json:"odd"`    // a request the pool refuses or that targets nothing: no promise about what it runs
	mine   bool       // set by the driver: the data map carries the request's own closure under the name `mine`
	// Trigger: this request performs the update from inside rule TrigRule
	Trigger  *Update `json:"trigger"`
	TrigRule string  `json:"trigrule"`
}

type Step struct {
	Op      string   `json:"op"` // burst update setmodel query probe quiesce mixed starve
	// starve: Reqs = as many holders as the pool has instances, then the waiters; Which = the list ("resident" |
	// "addition" | "any") whose instance is handed back first
	Which   string   `json:"which"`
	Waiters int      `json:"waiters"`
	// MidUpdate: a management call made while the waiters wait (starve); Flips: model changes of an emstorm step
	MidUpdate *Update `json:"midupdate"`
	Flips     int     `json:"flips"`
	// Plugin: cold sessions: a plugin file that is hot-loaded (GenginePool.PluginLoader) while the requests run
	Plugin string `json:"plugin"`
	// DelayMs: starve: the waiters are left waiting this long before the first holder is let go (steering only);
	// RaceQueries: updrace in a silent (race-detector) session: the query methods run at the same time
	DelayMs     int  `json:"delayms"`
	RaceQueries bool `json:"racequeries"`
	Reqs    []Req    `json:"reqs"`
	Update  *Update  `json:"update"`
	Updates []Update `json:"updates"`
	M       int      `json:"m"`
	Args    []string `json:"args"`
}

type Session struct {
	ID    int     `json:"id"`
	Kind  string  `json:"kind"` // capacity isolation updates manage
	Min   int64   `json:"min"`
	Max   int64   `json:"max"`
	Model int     `json:"model"`
	Rules []RuleV `json:"rules"`
	Gated bool    `json:"gated"`
	// GateHooks: requests are also parked at the hooks inside getGengine (after each emptiness read, while spinning)
	GateHooks bool   `json:"gatehooks"`
	CheckV    bool   `json:"checkv"`
	Silent    bool   `json:"silent"`
	Script    []Step `json:"script"`
	Timeout   int    `json:"timeout"`
}

type Obj struct{ Id int64 }

// Note is called from a conc branch as req.Note(holdq(req.Id)): the argument is computed (and the branch parked)
// before the receiver is looked up, so a branch that outlives its request would note its id on another request's object
func (o *Obj) Note(v int64) {
	if d, ok := D.Load().(*drv); ok && d != nil {
		d.o.Emit(obs.Event{"ev": "argpair", "a": o.Id, "b": v})
	}
}

// a result map handed back to a caller, with a copy taken at that moment
type keptMap struct {
	q    int64
	live map[string]interface{}
	copy map[string]interface{}
}

func salOf(tag int64) int64 { return (tag/10)%10 - 3 } // tag = version*100 + salience code*10 + rule index

func goid() int64 {
	var buf [64]byte
	n := runtime.Stack(buf[:], false)
	f := bytes.Fields(buf[:n])
	id, _ := strconv.ParseInt(string(f[1]), 10, 64)
	return id
}

type drv struct {
	o       *obs.Obs
	mu      sync.Mutex
	byGo    map[int64]int64 // goroutine -> request
	spun    map[int64]bool
	nspin   map[int64]int
	reqs    map[int64]*Req
	pool    *engine.GenginePool
	sess    *Session
	kept    []keptMap
	trigMu  sync.Mutex
	trigged map[int64]bool
	gatePub bool
	manual  map[int64]chan struct{} // requests held inside rule "own" until the driver lets them go (starve steps)
	instOf  map[int64]int64         // request -> instance it popped
	entered int64
	ended   map[int64]bool
	updSeq  int64
	byGoU   map[int64]int64 // goroutine -> management call it is making
	dead    int64           // the session's watchdog fired (atomic)
	npop    int64           // instances taken / handed back so far (hooks; atomic)
	npush   int64
	model   int64           // the pool's execution model as the session's management steps left it (atomic)
	storm   int64           // > 0 while the model is being changed concurrently with requests
}

// what the execution model of a request promises about the order in which its rule bodies start
func (d *drv) orderOf(method, via string) string {
	m := 0
	switch method {
	case "Execute", "ExecuteWithStopTagDirect", "ExecuteSelectedRules", "ExecuteSelectedRulesWithControl",
		"ExecuteSelectedRulesWithControlAndStopTag":
		m = 1
	case "ExecuteMixModel", "ExecuteMixModelWithStopTagDirect", "ExecuteSelectedRulesMixModel":
		m = 3
	}
	if via == "em" || strings.HasPrefix(via, "emMulti") || strings.HasPrefix(via, "emSelected") {
		if atomic.LoadInt64(&d.storm) > 0 {
			return "none"
		}
		m = int(atomic.LoadInt64(&d.model))
	}
	switch m {
	case 1:
		return "sort"
	case 3:
		return "head"
	}
	return "none"
}

var D atomic.Value // *drv of the running session; the hook is installed once and dispatches through it

func init() {
	engine.VerifHook = func(site string, a, b int64) {
		if d, ok := D.Load().(*drv); ok && d != nil {
			d.hook(site, a, b)
		}
	}
}

// versioned rule text: every body logs (request, rule, tag), may trigger an update, returns the request id
func versionText(rs []RuleV) string {
	var sb strings.Builder
	for _, r := range rs {
		fmt.Fprintf(&sb, "rule \"%s\" \"tag-%d\" salience %d\nbegin\n  enter(req.Id, \"%s\", %d)\n  if failq(req.Id) { boom() }\n  return req.Id\nend\n",
			r.Name, r.Tag, salOf(r.Tag), r.Name, r.Tag)
	}
	return sb.String()
}

func isoRules() []RuleV {
	return []RuleV{{"own", 1}, {"pa", 2}, {"pb", 3}, {"pc", 4}, {"pd", 5}, {"pe", 6}}
}

// isolation / capacity text
func isoText() string {
	return `rule "own" "tag-1" salience 9
begin
  enter(req.Id, "own", 1)
  chk(req.Id, holdq(req.Id))
  conc {
    req.Note(holdq(req.Id))
    boomcq(req.Id)
  }
  if tagq(req.Id) { stag.StopTag = true }
  if failq(req.Id) { boom() }
  if condq(req.Id) { if notbool() { x = 1 } }
  if leakq(req.Id) {
    loc = req.Id
    if notbool() { x = 1 }
  }
  if retq(req.Id) { return req.Id }
end
rule "pa" "tag-2" salience 3 begin
  peek(req.Id, "ka", ka.Id)
  if retq(req.Id) { return req.Id }
end
rule "pb" "tag-3" salience 2 begin
  peek(req.Id, "kb", kb.Id)
  if retq(req.Id) { return req.Id }
end
rule "pc" "tag-4" salience 1 begin
  peek(req.Id, "kc", kc.Id)
  if retq(req.Id) { return req.Id }
end
rule "pd" "tag-5" salience 0 begin
  peek(req.Id, "kd", kd.Id)
  if retq(req.Id) { return req.Id }
end
rule "pe" "tag-6" salience -1 begin
  if seeq(req.Id) { peek(req.Id, "loc", loc) }
  if hasmine(req.Id) { chk(req.Id, mine()) }
  if retq(req.Id) { return req.Id }
end
`
}

func (d *drv) api() map[string]interface{} {
	return map[string]interface{}{
		"enter": func(q int64, r string, tag int64) {
			d.o.Hold(obs.Event{"ev": "rule", "q": q, "r": r, "tag": tag}, r)
			d.mu.Lock()
			rq := d.reqs[q]
			mch := d.manual[q]
			d.mu.Unlock()
			if mch != nil && r == "own" {
				atomic.AddInt64(&d.entered, 1)
				<-mch
			}
			if rq != nil && rq.Trigger != nil && rq.TrigRule == r {
				d.trigMu.Lock()
				done := d.trigged[q]
				d.trigged[q] = true
				d.trigMu.Unlock()
				if !done {
					d.doUpdate(rq.Trigger)
				}
			}
		},
		"tagq": func(q int64) bool {
			d.mu.Lock()
			defer d.mu.Unlock()
			return d.reqs[q] != nil && d.reqs[q].Tag
		},
		"failq": func(q int64) bool {
			d.mu.Lock()
			defer d.mu.Unlock()
			return d.reqs[q] != nil && d.reqs[q].Fail == "boom"
		},
		"boomcq": func(q int64) {
			d.mu.Lock()
			f := d.reqs[q] != nil && d.reqs[q].Fail == "concboom"
			d.mu.Unlock()
			if f {
				panic("conc branch fails")
			}
		},
		"condq": func(q int64) bool {
			d.mu.Lock()
			defer d.mu.Unlock()
			return d.reqs[q] != nil && d.reqs[q].Fail == "cond"
		},
		"notbool": func() int64 { return 1 },
		// leak: the rule binds a local from its request and then dies of a fault that only the rule-level recover
		// catches; see: a rule reads that local name without ever binding it (it must not find anything)
		"leakq": func(q int64) bool {
			d.mu.Lock()
			defer d.mu.Unlock()
			return d.reqs[q] != nil && d.reqs[q].Fail == "leak"
		},
		"seeq": func(q int64) bool {
			d.mu.Lock()
			defer d.mu.Unlock()
			return d.reqs[q] != nil && d.reqs[q].Fail == "see"
		},
		// chk(req.Id, holdq(req.Id)): the second argument blocks on a gate after the first one was evaluated;
		// both must still belong to the same request when the call is made (positional arguments, C03 / C06)
		"holdq": func(q int64) int64 {
			d.o.Park("holdq")
			return q
		},
		"chk": func(a, b int64) {
			d.o.Emit(obs.Event{"ev": "argpair", "a": a, "b": b})
		},
		// the request injected a function value of its own under the name `mine` (a closure that returns its id)
		"hasmine": func(q int64) bool {
			d.mu.Lock()
			defer d.mu.Unlock()
			return d.reqs[q] != nil && d.reqs[q].mine
		},
		"retq": func(q int64) bool {
			d.mu.Lock()
			defer d.mu.Unlock()
			return d.reqs[q] == nil || !d.reqs[q].NoRet
		},
		"boom": func() { panic("boom") },
		// an api OBJECT: requests may inject their own object under the same name
		"kd": &Obj{Id: -7},
		"peek": func(q int64, key string, val int64) {
			d.o.Emit(obs.Event{"ev": "peek", "q": q, "key": key, "val": val})
		},
	}
}

func (d *drv) hook(site string, a, b int64) {
	if d.sess != nil && d.sess.Silent {
		// race-detector runs: the hooks must not order anything (no mutex of the driver is touched; the two counters
		// are only shared by requests and hand-backs)
		switch site {
		case "pop":
			atomic.AddInt64(&d.npop, 1)
		case "push":
			atomic.AddInt64(&d.npush, 1)
		case "spin":
			runtime.Gosched()
		}
		return
	}
	switch site {
	case "pop":
		d.mu.Lock()
		q, ok := d.byGo[goid()]
		if !ok {
			q = -1
		} else {
			d.instOf[q] = a
		}
		d.mu.Unlock()
		atomic.AddInt64(&d.npop, 1)
		d.o.Emit(obs.Event{"ev": "pop", "q": q, "i": a, "locked": b % 2, "len": b / 2})
	case "spin":
		g := goid()
		d.mu.Lock()
		q := d.byGo[g]
		d.spun[q] = true
		d.nspin[q]++
		n := d.nspin[q]
		d.mu.Unlock()
		// the first three iterations of a waiting request are logged (any two logged spins of one request have a complete
		// look at both lists between them); more would keep the log busy and the gate controller waits for a quiet log
		if n <= 3 {
			d.o.Emit(obs.Event{"ev": "spin", "q": q})
		}
		if d.sess.GateHooks {
			d.o.Park("spin")
		} else {
			runtime.Gosched()
		}
	case "freelen", "addlen":
		// yield points between the emptiness test of a list and the pop under its lock
		if d.sess.GateHooks {
			d.o.Park(site)
		}
	case "clear", "put":
		// the request drops its data / hands its instance back (in this order, and both while it holds the instance)
		d.mu.Lock()
		q, ok := d.byGo[goid()]
		d.mu.Unlock()
		if !ok {
			q = -1
		}
		d.o.Emit(obs.Event{"ev": site, "q": q, "i": a})
	case "push":
		d.o.Emit(obs.Event{"ev": "push", "i": a, "locked": b % 2, "len": b / 2})
		atomic.AddInt64(&d.npush, 1)
	case "publish":
		d.mu.Lock()
		u := d.byGoU[goid()]
		d.mu.Unlock()
		if d.gatePub {
			d.o.Hold(obs.Event{"ev": "publish", "i": a, "kind": b, "u": u}, "publish")
		} else {
			d.o.Emit(obs.Event{"ev": "publish", "i": a, "kind": b, "u": u})
		}
	case "incr_mid":
		d.mu.Lock()
		u := d.byGoU[goid()]
		d.mu.Unlock()
		if d.gatePub {
			d.o.Hold(obs.Event{"ev": "incr_mid", "u": u}, "incr_mid")
		} else {
			d.o.Emit(obs.Event{"ev": "incr_mid", "u": u})
		}
	}
}

func nz(xs []string) []string {
	if xs == nil {
		return []string{}
	}
	return xs
}
func nzr(xs []RuleV) []RuleV {
	if xs == nil {
		return []RuleV{}
	}
	return xs
}

func (d *drv) doUpdate(u *Update) {
	id := atomic.AddInt64(&d.updSeq, 1)
	g := goid()
	if !d.sess.Silent { // (silent runs: a management goroutine shares no lock of the driver with the requests)
		d.mu.Lock()
		d.byGoU[g] = id
		d.mu.Unlock()
		defer func() {
			d.mu.Lock()
			delete(d.byGoU, g)
			d.mu.Unlock()
		}()
	}
	d.o.Emit(obs.Event{"ev": "upd_begin", "u": id, "kind": u.Kind, "rules": nzr(u.Rules), "names": nz(u.Names)})
	var err error
	var pv interface{}
	func() {
		defer func() {
			if r := recover(); r != nil {
				pv = r
			}
		}()
		text := versionText(u.Rules)
		if d.sess.Kind == "isolation" || d.sess.Kind == "capacity" {
			text = isoText() // these sessions re-install their one rule text (u.Rules lists its rules)
		}
		switch u.Kind {
		case "full":
			err = d.pool.UpdatePooledRules(text)
		case "incr":
			err = d.pool.UpdatePooledRulesIncremental(text)
		case "remove":
			err = d.pool.RemoveRules(u.Names)
		case "clear":
			d.pool.ClearPoolRules()
		case "badfull":
			err = d.pool.UpdatePooledRules("rule \"x\" begin a = = 1 end")
		case "badincr":
			err = d.pool.UpdatePooledRulesIncremental("rule \"r1\" \"d\" begin end rule \"r1\" \"e\" begin end")
		}
	}()
	ev := obs.Event{"ev": "upd_end", "u": id, "kind": u.Kind, "ok": err == nil && pv == nil, "panic": pv != nil}
	if pv != nil {
		ev["panicmsg"] = fmt.Sprint(pv)
	}
	d.o.Emit(ev)
}

func (d *drv) request(r *Req, cv bool) {
	d.mu.Lock()
	d.byGo[goid()] = r.Q
	d.reqs[r.Q] = r
	d.mu.Unlock()
	if (r.Via == "em" || r.Via == "emresp") && len(r.Keys) > 1 {
		r.Keys = r.Keys[:1] // the two-object entry point injects the request and one more object
	}
	keys := append([]string{"req"}, r.Keys...)
	if r.Via == "emresp" {
		keys = append([]string{}, r.Keys...) // only the second object of the two-object entry point is given
	}
	names := r.Names
	tn := names
	if tn == nil {
		tn = []string{"*"}
	}
	if r.NoData {
		keys = []string{}
	}
	fl := r.Fail != "" || d.expectPeekFail(r) || r.NoData || r.Via == "emresp"
	if r.Tag {
		// the first rule sets the stop tag: the rules behind it (which would miss their keys) never run
		fl = r.Fail != ""
	}
	d.o.Emit(obs.Event{"ev": "arrive", "q": r.Q, "keys": keys, "names": tn, "fail": fl, "failmay": !fl && d.apiKeyMayBeGone(r),
		"ord": d.orderOf(r.Method, r.Via)})
	data := map[string]interface{}{"req": &Obj{Id: r.Q}}
	for _, k := range r.Keys {
		data[k] = &Obj{Id: r.Q}
	}
	for i := 0; i < r.Bulk; i++ {
		data[fmt.Sprintf("bulk_%d_%d", r.Q, i)] = int64(i)
	}
	if r.NoData {
		data = map[string]interface{}{}
	}
	st := &engine.Stag{}
	if r.Tag {
		data["stag"] = st
	}
	if !r.NoData && r.Via != "em" && r.Via != "emresp" {
		// every request injects a function value of its own under one and the same name
		q := r.Q
		data["mine"] = func() int64 { return q }
		d.mu.Lock()
		r.mine = true
		d.mu.Unlock()
	}
	c := &dispatch.Call{Method: r.Method, Via: r.Via, B: r.B, N: r.N, M: r.M, Names: r.Names, Dag: r.Dag}
	if c.Via == "" {
		c.Via = "direct"
	}
	if c.Via == "emMulti" || c.Via == "emSelected" {
		c.Via += "0" // run under the pool's current execution model
	}
	if r.Fail == "nilstag" {
		// the request itself panics (nil stop tag dereferenced by the engine after the first rule)
		st = nil
		c.Method, c.Via = "ExecuteWithStopTagDirect", "direct"
	}
	var err error
	var res map[string]interface{}
	var pv interface{}
	func() {
		defer func() {
			if x := recover(); x != nil {
				pv = x
			}
		}()
		if c.Via == "emresp" {
			// ... with the first object left out: nothing named "req" is injected, every rule of the text fails
			err, res = d.pool.ExecuteRulesWithSpecifiedEM("", nil, firstKey(r.Keys), firstVal(data, r.Keys))
		} else if c.Via == "em" {
			// the two-object entry point: request and response names
			err, res = d.pool.ExecuteRulesWithSpecifiedEM("req", data["req"], firstKey(r.Keys), firstVal(data, r.Keys))
		} else {
			err, res = dispatch.PoolCall(d.pool, c, st, data)
		}
	}()
	cp := map[string]interface{}{}
	for k, v := range res {
		cp[k] = v
	}
	d.mu.Lock()
	d.kept = append(d.kept, keptMap{r.Q, res, cp})
	d.mu.Unlock()
	vals := []int64{}
	for _, v := range res {
		if x, ok := v.(int64); ok {
			vals = append(vals, x)
		} else {
			vals = append(vals, -999)
		}
	}
	// full: nothing stops this request, so it must have run every rule it targets
	full := (d.sess.Kind == "isolation" || d.sess.Kind == "capacity") && !fl && !d.apiKeyMayBeGone(r) && !r.Tag && !r.Odd && r.Trigger == nil
	ev := obs.Event{"ev": "req_end", "q": r.Q, "err": err != nil || pv != nil, "panic": pv != nil, "vals": vals, "cv": cv, "full": full}
	if err != nil {
		m := err.Error()
		if len(m) > 120 {
			m = m[:120]
		}
		ev["msg"] = m
	}
	d.o.Emit(ev)
	d.mu.Lock()
	delete(d.byGo, goid())
	d.ended[r.Q] = true
	d.mu.Unlock()
}

// starve: every instance is held by a request parked inside a rule; further requests arrive and wait; one holder
// (of the wanted list) is let go and NOTHING else happens until a waiter has completed - a waiter that does not
// take the instance that was handed back leaves the session hanging (watchdog, reproduced by the runner).
func (d *drv) starve(st *Step) {
	nh := len(st.Reqs) - st.Waiters
	holders, waiters := st.Reqs[:nh], st.Reqs[nh:]
	d.mu.Lock()
	for i := range holders {
		d.manual[holders[i].Q] = make(chan struct{})
	}
	d.mu.Unlock()
	atomic.StoreInt64(&d.entered, 0)
	var wg sync.WaitGroup
	for i := range holders {
		wg.Add(1)
		go func(r *Req) { defer wg.Done(); d.request(r, false) }(&holders[i])
	}
	for t := 0; t < 4000 && atomic.LoadInt64(&d.entered) < int64(nh); t++ {
		time.Sleep(500 * time.Microsecond)
	}
	for i := range waiters {
		wg.Add(1)
		go func(r *Req) { defer wg.Done(); d.request(r, false) }(&waiters[i])
	}
	// the waiters have arrived and found nothing
	for t := 0; t < 100; t++ {
		time.Sleep(500 * time.Microsecond)
		d.mu.Lock()
		n := 0
		for i := range waiters {
			if d.spun[waiters[i].Q] {
				n++
			}
		}
		d.mu.Unlock()
		if n == len(waiters) {
			break
		}
	}
	if st.MidUpdate != nil {
		d.doUpdate(st.MidUpdate)
	}
	if st.DelayMs > 0 {
		time.Sleep(time.Duration(st.DelayMs) * time.Millisecond) // however long a waiter waits, it waits
	}
	released := map[int64]bool{}
	nEnded := func() int {
		d.mu.Lock()
		defer d.mu.Unlock()
		n := 0
		for i := range waiters {
			if d.ended[waiters[i].Q] {
				n++
			}
		}
		return n
	}
	for k := range waiters {
		// let one holder go: preferably one whose instance belongs to the wanted list
		pick := int64(-1)
		d.mu.Lock()
		for i := range holders {
			q := holders[i].Q
			if released[q] {
				continue
			}
			inst, ok := d.instOf[q]
			match := st.Which == "any" || !ok || (st.Which == "addition") == (inst >= d.sess.Min)
			if pick < 0 || match {
				pick = q
				if match {
					break
				}
			}
		}
		if pick >= 0 {
			released[pick] = true
			close(d.manual[pick])
		}
		d.mu.Unlock()
		for nEnded() < k+1 {
			time.Sleep(200 * time.Microsecond) // the session watchdog ends this wait if the waiter never proceeds
		}
	}
	d.mu.Lock()
	for i := range holders {
		if q := holders[i].Q; !released[q] {
			close(d.manual[q])
		}
	}
	d.mu.Unlock()
	wg.Wait()
	d.mu.Lock()
	d.manual = map[int64]chan struct{}{}
	d.mu.Unlock()
}

func firstKey(ks []string) string {
	if len(ks) > 0 {
		return ks[0]
	}
	return ""
}
func firstVal(data map[string]interface{}, ks []string) interface{} {
	if len(ks) > 0 {
		return data[ks[0]]
	}
	return nil
}

// in isolation sessions the peek rules of keys the request did not inject fail
func (d *drv) expectPeekFail(r *Req) bool {
	if d.sess.Kind != "isolation" && d.sess.Kind != "capacity" {
		return false
	}
	has := map[string]bool{}
	for _, k := range r.Keys {
		has[k] = true
	}
	return !(has["ka"] && has["kb"] && has["kc"])
}

// a request that does not inject "kd" finds the pool's api object there - unless an earlier request on the same
// instance injected its own object under that name (the release removes the name altogether): error or not is open
func (d *drv) apiKeyMayBeGone(r *Req) bool {
	if d.sess.Kind != "isolation" && d.sess.Kind != "capacity" {
		return false
	}
	for _, k := range r.Keys {
		if k == "kd" {
			return false
		}
	}
	return true
}

func (d *drv) burst(reqs []Req, cv bool, extra func()) {
	var wg sync.WaitGroup
	for i := range reqs {
		wg.Add(1)
		go func(r *Req) { defer wg.Done(); d.request(r, cv) }(&reqs[i])
	}
	if extra != nil {
		wg.Add(1)
		go func() { defer wg.Done(); extra() }()
	}
	wg.Wait()
}

func (d *drv) queries(args []string) {
	p := d.pool
	for _, a := range args {
		ex := p.IsExist([]string{a})
		v := int64(0)
		if len(ex) == 1 && ex[0] {
			v = 1
		}
		d.o.Emit(obs.Event{"ev": "query", "kind": "exist", "arg": a, "res": v, "err": len(ex) != 1})
		s, e := p.GetRuleSalience(a)
		d.o.Emit(obs.Event{"ev": "query", "kind": "sal", "arg": a, "res": s, "err": e != nil})
		ds, e2 := p.GetRuleDesc(a)
		t := int64(-1)
		if strings.HasPrefix(ds, "tag-") {
			t, _ = strconv.ParseInt(ds[4:], 10, 64)
		}
		d.o.Emit(obs.Event{"ev": "query", "kind": "desc", "arg": a, "res": t, "err": e2 != nil})
	}
	d.o.Emit(obs.Event{"ev": "query", "kind": "number", "arg": "", "res": int64(p.GetRulesNumber()), "err": false})
	d.o.Emit(obs.Event{"ev": "query", "kind": "model", "arg": "", "res": int64(p.GetExecModel()), "err": false})
}

func (d *drv) quiesce() {
	// the hand-backs are asynchronous: wait until every instance that was taken has been handed back.  No clock
	// decides here: if a hand-back never comes, the session's watchdog ends the wait and the runner's
	// hang-reproduction rule decides.
	for atomic.LoadInt64(&d.npush) < atomic.LoadInt64(&d.npop) {
		time.Sleep(200 * time.Microsecond)
		if atomic.LoadInt64(&d.dead) != 0 {
			return
		}
	}
	d.o.Emit(obs.Event{"ev": "quiesce"})
	// every result map handed back so far must still be what it was when it was returned
	d.mu.Lock()
	kept := d.kept
	d.kept = nil
	d.mu.Unlock()
	for _, k := range kept {
		same := len(k.live) == len(k.copy)
		for kk, v := range k.copy {
			if lv, ok := k.live[kk]; !ok || lv != v {
				same = false
			}
		}
		d.o.Emit(obs.Event{"ev": "frozen", "q": k.q, "same": same})
	}
}

func runSession(s *Session, quiet time.Duration, seed int64) ([]obs.Event, bool) {
	if s.Kind == "cold" {
		return runCold(s), true
	}
	all := []obs.Event{{"ev": "session", "id": s.ID}}
	o := obs.New(s.Gated, quiet, seed+int64(s.ID)*271)
	o.Silent = s.Silent
	d := &drv{o: o, byGo: map[int64]int64{}, spun: map[int64]bool{}, nspin: map[int64]int{}, reqs: map[int64]*Req{}, sess: s, trigged: map[int64]bool{},
		manual: map[int64]chan struct{}{}, instOf: map[int64]int64{}, ended: map[int64]bool{}, byGoU: map[int64]int64{}}
	D.Store(d)
	text := versionText(s.Rules)
	if s.Kind == "isolation" || s.Kind == "capacity" {
		text = isoText()
	}
	// construction attempts with valid and invalid parameters (management sessions)
	if s.Kind == "manage" {
		for _, t := range [][4]int64{{0, 2, 1, 1}, {2, 2, 1, 1}, {3, 2, 1, 1}, {-1, 2, 1, 1}, {1, 2, 0, 1}, {1, 2, 5, 1}, {1, 2, 2, 0}, {1, 2, 3, 2},
			{1, 3, 4, 1}, {2, 3, 1, 1}} {
			txt := text
			if t[3] == 0 {
				txt = ""
			} else if t[3] == 2 {
				txt = "rule \"x\" begin a = = 1 end"
			}
			var np *engine.GenginePool
			var perr error
			var pv interface{}
			func() {
				defer func() {
					if x := recover(); x != nil {
						pv = x
					}
				}()
				np, perr = engine.NewGenginePool(t[0], t[1], int(t[2]), txt, d.api())
			}()
			o.Emit(obs.Event{"ev": "pnew_try", "min": t[0], "max": t[1], "model": t[2], "textok": t[3] == 1,
				"ok": perr == nil && np != nil && pv == nil, "panic": pv != nil})
		}
	}
	p, err := engine.NewGenginePool(s.Min, s.Max, s.Model, text, d.api())
	if err != nil {
		fmt.Fprintf(os.Stderr, "driver: session %d: pool construction failed: %v\n", s.ID, err)
		os.Exit(2)
	}
	d.pool = p
	atomic.StoreInt64(&d.model, int64(s.Model))
	rules := s.Rules
	if s.Kind == "isolation" || s.Kind == "capacity" {
		rules = isoRules()
	}
	o.Emit(obs.Event{"ev": "pnew", "min": s.Min, "max": s.Max, "rules": rules, "model": s.Model})
	tmo := time.Duration(s.Timeout) * time.Second
	if tmo == 0 {
		tmo = 30 * time.Second
	}
	done := make(chan struct{})
	if s.Gated {
		o.StartController()
	}
	go func() {
		for si := range s.Script {
			st := &s.Script[si]
			switch st.Op {
			case "burst":
				d.gatePub = false
				d.burst(st.Reqs, s.CheckV, nil)
			case "mixed":
				d.gatePub = s.Gated
				ups := st.Updates
				d.burst(st.Reqs, s.CheckV, func() {
					for i := range ups {
						d.doUpdate(&ups[i])
					}
				})
				d.gatePub = false
			case "update":
				d.gatePub = false
				d.doUpdate(st.Update)
			case "updrace":
				// several management calls at once (each on its own goroutine), parked at the hooks inside the update
				// lock when the session is gated, together with requests
				d.gatePub = s.Gated
				ups := st.Updates
				var uw sync.WaitGroup
				for i := range ups {
					uw.Add(1)
					go func(u *Update) { defer uw.Done(); d.doUpdate(u) }(&ups[i])
				}
				if st.RaceQueries && s.Silent {
					uw.Add(1)
					go func() {
						defer uw.Done()
						for k := 0; k < 20; k++ {
							d.queries([]string{"r1", "r2", "r3", "r4", "zz"})
						}
					}()
				}
				d.burst(st.Reqs, s.CheckV, nil)
				uw.Wait()
				d.gatePub = false
			case "setmodel":
				e := p.SetExecModel(st.M)
				if e == nil {
					atomic.StoreInt64(&d.model, int64(st.M))
				}
				o.Emit(obs.Event{"ev": "setmodel", "m": st.M, "ok": e == nil})
			case "query":
				d.queries(st.Args)
			case "quiesce":
				d.quiesce()
			case "starve":
				d.gatePub = false
				d.starve(st)
			case "fill":
				// "the pool can still serve M simultaneous requests": as many requests as the pool has instances are
				// parked inside a rule, ALL of them must get there (no clock decides: if one never gets an instance the
				// session watchdog ends the wait and the hang-reproduction rule decides), then they are let go
				d.gatePub = false
				d.mu.Lock()
				for i := range st.Reqs {
					d.manual[st.Reqs[i].Q] = make(chan struct{})
				}
				d.mu.Unlock()
				atomic.StoreInt64(&d.entered, 0)
				var fw sync.WaitGroup
				for i := range st.Reqs {
					fw.Add(1)
					go func(r *Req) { defer fw.Done(); d.request(r, false) }(&st.Reqs[i])
				}
				for atomic.LoadInt64(&d.entered) < int64(len(st.Reqs)) && atomic.LoadInt64(&d.dead) == 0 {
					time.Sleep(200 * time.Microsecond)
				}
				d.mu.Lock()
				for q, ch := range d.manual {
					select {
					case <-ch:
					default:
						close(ch)
					}
					delete(d.manual, q)
				}
				d.mu.Unlock()
				fw.Wait()
			case "emstorm":
				// the execution model is changed back and forth while two clients issue requests one after the other
				d.gatePub = false
				atomic.AddInt64(&d.storm, 1)
				var sw sync.WaitGroup
				stop := make(chan struct{})
				sw.Add(1)
				go func() {
					defer sw.Done()
					for k := 0; k < st.Flips; k++ {
						select {
						case <-stop:
							return
						default:
						}
						for _, m := range []int{3, 1} {
							e := p.SetExecModel(m)
							if e == nil {
								atomic.StoreInt64(&d.model, int64(m))
							}
							o.Emit(obs.Event{"ev": "setmodel", "m": m, "ok": e == nil})
						}
					}
				}()
				var cw sync.WaitGroup
				for w := 0; w < 2; w++ {
					cw.Add(1)
					go func(w int) {
						defer cw.Done()
						for i := w; i < len(st.Reqs); i += 2 {
							d.request(&st.Reqs[i], s.CheckV)
						}
					}(w)
				}
				cw.Wait()
				close(stop)
				sw.Wait()
				atomic.AddInt64(&d.storm, -1)
			}
		}
		close(done)
	}()
	ok := true
	select {
	case <-done:
	case <-time.After(tmo):
		ok = false
	}
	o.StopController()
	if !ok {
		atomic.StoreInt64(&d.dead, 1)
		// let parked holders go so that the goroutines of a stuck session do not spin behind the next one
		d.mu.Lock()
		for q, ch := range d.manual {
			select {
			case <-ch:
			default:
				close(ch)
			}
			delete(d.manual, q)
		}
		d.mu.Unlock()
	}
	o.Settle(time.Millisecond)
	D.Store((*drv)(nil))
	all = append(all, o.Take()...)
	if !ok {
		all = append(all, obs.Event{"ev": "timeout"})
	}
	return all, ok
}

func main() {
	in := flag.String("in", "", "sessions ndjson")
	out := flag.String("out", "", "trace ndjson (appended)")
	journal := flag.String("journal", "", "journal file")
	shard := flag.String("shard", "0/1", "i/n")
	from := flag.Int("from", 0, "skip sessions with index < from")
	quiet := flag.Duration("quiet", 2*time.Millisecond, "quiescence window")
	seed := flag.Int64("seed", 1, "seed")
	flag.Parse()
	var si, sn int
	fmt.Sscanf(*shard, "%d/%d", &si, &sn)
	f, err := os.Open(*in)
	if err != nil {
		fmt.Fprintln(os.Stderr, err)
		os.Exit(2)
	}
	of, _ := os.OpenFile(*out, os.O_APPEND|os.O_CREATE|os.O_WRONLY, 0o644)
	jf, _ := os.OpenFile(*journal, os.O_APPEND|os.O_CREATE|os.O_WRONLY, 0o644)
	sc := bufio.NewScanner(f)
	sc.Buffer(make([]byte, 1<<20), 1<<26)
	i := -1
	for sc.Scan() {
		line := sc.Bytes()
		if len(strings.TrimSpace(string(line))) == 0 {
			continue
		}
		i++
		if i%sn != si || i < *from {
			continue
		}
		var s Session
		if err := json.Unmarshal(line, &s); err != nil {
			fmt.Fprintf(os.Stderr, "driver: bad session line %d: %v\n", i, err)
			os.Exit(2)
		}
		fmt.Fprintf(jf, "%d %d\n", i, s.ID)
		evs, ok := runSession(&s, *quiet, *seed)
		var sb strings.Builder
		for _, e := range evs {
			b, _ := json.Marshal(e)
			sb.Write(b)
			sb.WriteByte('\n')
		}
		of.WriteString(sb.String())
		fmt.Fprintf(jf, "done %d\n", i)
		if !ok {
			os.Exit(3)
		}
	}
}
