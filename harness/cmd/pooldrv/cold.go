//go:build verif

package main

import (
	"fmt"
	"os"
	"sync"
	"sync/atomic"
	"time"

	"github.com/bilibili/gengine/engine"

	"gverif/dispatch"
	"gverif/obs"
)

// Cold sessions (C19): a FRESH pool whose rules have never been evaluated is hit by several requests at the same
// moment, each with its own private data.  The rule text uses every kind of syntax-tree node; the instances of a
// pool share the compiled tree, so anything the interpreter stores in the tree while evaluating is written by two
// goroutines at once.  There is nothing to validate in the log: the recorder is the race detector.

type CIn struct{ N int64 }

func (c *CIn) Get() int64        { return c.N }
func (c *CIn) Add(x int64) int64 { c.N += x; return c.N }

type CObj struct {
	Id int64
	I  int64
	S  string
	F  float64
	B  bool
	M  map[string]int64
	L  []int64
	In *CIn
}

func (c *CObj) Twice(x int64) int64 { return 2 * x }

func newCObj(q int64) *CObj {
	return &CObj{Id: q, I: q, M: map[string]int64{"a": 1, "b": 2}, L: []int64{1, 2, 3}, In: &CIn{N: q}}
}

const coldText = `
rule "k1" "calls of every depth" salience 10
begin
  a = req.In.Get()
  b = req.In.Add(a + 1)
  c = req.Twice(b)
  d = plus(c, 1)
  req.I = d
  if req.I > 3 && !req.B {
    req.S = "big"
  } else if req.I == 3 || req.B {
    req.S = "three"
  } else {
    req.S = "small"
  }
  return req.I
end
rule "k2" "containers and loops" salience 5
begin
  s = 0
  for i = 0; i < 3; i += 1 {
    if i == 1 { continue }
    s += req.L[i]
  }
  forRange k := req.M {
    s = s + req.M[k]
  }
  forRange j := req.L {
    if j > 1 { break }
    s = s + req.L[j]
  }
  idx = 1
  req.L[idx] = s
  req.L[2] = s - 1
  req.M["out"] = s
  key = "dyn"
  req.M[key] = s * 2
  t = -1.5
  req.F = t * 2 + 3
  u = @sal
  nm = @name
  req.S = nm + "/" + @desc
  s *= 2
  s -= 1
  s /= 1
  return s + u
end
rule "k3" "conc block" salience 1
begin
  conc {
    x = req.In.Get()
    y = req.Twice(2)
    req.In.Add(1)
    plus(1, 2)
  }
  z = x + y
  if isNil(req.In) {
    return 0
  }
  w = (z + 1) * 2 >= 4
  return w
end
rule "k5" "calls injected functions for as long as a plugin is being loaded" salience -5
begin
  n = 0
  for i = 0; more(); i += 1 {
    n = plus(n, 1)
  }
  return n
end
rule "k4" "strings and comparisons" salience 0
begin
  p = "a" + "b"
  q1 = p == "ab"
  q2 = 1.5 < 2
  q3 = !(req.I != 0)
  if q1 && q2 || q3 {
    req.B = true
  }
  return req.M["a"] + req.L[0]
end
`

func runCold(s *Session) []obs.Event {
	all := []obs.Event{{"ev": "session", "id": s.ID}}
	// more(): k5 keeps calling functions while a plugin load is under way (plus a little longer), never otherwise
	var loading, spins int64
	api := map[string]interface{}{"plus": func(a, b int64) int64 { return a + b },
		"more": func() bool {
			if atomic.LoadInt64(&loading) == 1 {
				return atomic.AddInt64(&spins, 1) < 3000000
			}
			return false
		}}
	p, err := engine.NewGenginePool(s.Min, s.Max, 1, coldText, api)
	if err != nil {
		fmt.Fprintf(os.Stderr, "driver: session %d: cold pool construction failed: %v\n", s.ID, err)
		os.Exit(2)
	}
	for si := range s.Script {
		st := &s.Script[si]
		start := make(chan struct{})
		var wg sync.WaitGroup
		errs := make([]string, len(st.Reqs))
		for i := range st.Reqs {
			wg.Add(1)
			go func(i int, r *Req) {
				defer wg.Done()
				defer func() {
					if x := recover(); x != nil {
						errs[i] = fmt.Sprint("panic: ", x)
					}
				}()
				data := map[string]interface{}{"req": newCObj(r.Q)}
				via := r.Via
				if via == "em" || via == "" {
					via = map[string]string{"em": "emMulti", "": "direct"}[via] // the rules need the request's own data
				}
				c := &dispatch.Call{Method: r.Method, Via: via, B: true, N: r.N, M: r.M, Names: r.Names, Dag: r.Dag}
				<-start
				e, _ := dispatch.PoolCall(p, c, &engine.Stag{}, data)
				if e != nil {
					errs[i] = e.Error()
				}
			}(i, &st.Reqs[i])
		}
		if st.Plugin != "" {
			// a plugin is hot-loaded into the pool (every instance's data context gets the exported symbol) while the
			// requests are calling injected functions
			atomic.StoreInt64(&loading, 1)
			atomic.StoreInt64(&spins, 0)
			wg.Add(1)
			go func() {
				defer wg.Done()
				<-start
				e := p.PluginLoader(st.Plugin)
				time.Sleep(2 * time.Millisecond)
				atomic.StoreInt64(&loading, 0)
				if e != nil {
					all = append(all, obs.Event{"ev": "cold_plugin", "err": e.Error()})
				} else {
					all = append(all, obs.Event{"ev": "cold_plugin", "err": ""})
				}
			}()
		}
		if st.Flips > 0 {
			// a management goroutine sets the execution model (to the value it already has, so that nothing a
			// request computes depends on it) while the requests run; nothing but the pool orders the two
			wg.Add(1)
			go func() {
				defer wg.Done()
				<-start
				for k := 0; k < st.Flips; k++ {
					_ = p.SetExecModel(1)
					_ = p.GetExecModel()
				}
			}()
		}
		close(start)
		wg.Wait()
		for i, e := range errs {
			if e != "" {
				if len(e) > 200 {
					e = e[:200]
				}
				all = append(all, obs.Event{"ev": "cold_err", "q": st.Reqs[i].Q, "method": st.Reqs[i].Method, "msg": e})
			}
		}
	}
	all = append(all, obs.Event{"ev": "cold_done"})
	return all
}
