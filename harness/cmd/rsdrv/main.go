// rsdrv records traces for RuleSet.tla (C08: histories of full / incremental
// builds and removals on a RuleBuilder) and Compile.tla (C10: one text submitted
// to the five compile entry points).
package main

import (
	"time"
	"bufio"
	"encoding/base64"
	"encoding/json"
	"flag"
	"fmt"
	"os"
	"sort"
	"strings"

	"github.com/bilibili/gengine/builder"
	"github.com/bilibili/gengine/context"
	"github.com/bilibili/gengine/engine"
)

type RDecl struct {
	Name string `json:"name"`
	Sal  int64  `json:"sal"`
	Desc string `json:"desc"`
	Ver  int64  `json:"ver"`
}

type Op struct {
	Kind  string   `json:"kind"` // full incr remove bad
	Rules []RDecl  `json:"rules"`
	Names []string `json:"names"`
	Text  string   `json:"text"` // kind=bad: the text that does not compile; "" = generated from rules
	Incr  bool     `json:"incr"` // kind=bad: submitted through the incremental entry point
}

type Session struct {
	ID       int      `json:"id"`
	Kind     string   `json:"kind"` // ruleset | compile
	Ops      []Op     `json:"ops"`
	Universe []string `json:"universe"`
	// compile
	Text   string `json:"text"`
	Text64 string `json:"text64"` // base64 of the text when it is not valid UTF-8
	// SelfFirst: the installed base is reached through the text itself: first the
	// text is (tried to be) installed by a full build, then the base rules are merged
	// in incrementally and every other rule is removed, so that the state equals the
	// base again when the text is submitted ("any state of the builder/pool").
	SelfFirst bool    `json:"selffirst"`
	BaseIncr  bool    `json:"baseincr"` // builder entry points: the base text is installed by an incremental build on the fresh builder
	Cleared   bool    `json:"cleared"` // the pool is emptied (ClearPoolRules) before the text goes to its update entry points
	Class     string  `json:"class"`
	Base      []RDecl `json:"base"`
	Declared  []RDecl `json:"declared"`
}

type Event map[string]interface{}

// echo bodies: every rule reports @name @sal @desc and its version when run
func echoText(rs []RDecl) string {
	var sb strings.Builder
	for _, r := range rs {
		fmt.Fprintf(&sb, "rule \"%s\" \"%s\" salience %d\nbegin\n  echo(@name, @sal, @desc, %d)\nend\n", r.Name, r.Desc, r.Sal, r.Ver)
	}
	return sb.String()
}

type runRec struct {
	Name string `json:"name"`
	Sal  int64  `json:"sal"`
	Desc string `json:"desc"`
	Ver  int64  `json:"ver"`
}

var runLog []runRec

func api() map[string]interface{} {
	return map[string]interface{}{
		"echo": func(n string, s int64, d string, v int64) { runLog = append(runLog, runRec{n, s, d, v}) },
	}
}

func newBuilder() *builder.RuleBuilder {
	dc := context.NewDataContext()
	for k, v := range api() {
		dc.Add(k, v)
	}
	return builder.NewRuleBuilder(dc)
}

func try(f func() error) (err error, pv interface{}) {
	defer func() {
		if r := recover(); r != nil {
			pv = r
		}
	}()
	return f(), nil
}

func nzs(x []string) []string {
	if x == nil {
		return []string{}
	}
	return x
}
func nzr(x []RDecl) []RDecl {
	if x == nil {
		return []RDecl{}
	}
	return x
}

func builderState(rb *builder.RuleBuilder, universe []string) Event {
	sorted := []map[string]interface{}{}
	for _, r := range rb.Kc.SortRules {
		sorted = append(sorted, map[string]interface{}{"name": r.RuleName, "sal": r.Salience, "desc": r.RuleDescription})
	}
	keys := []string{}
	for k := range rb.Kc.RuleEntities {
		keys = append(keys, k)
	}
	sort.Strings(keys)
	ex := rb.IsExist(universe)
	exist := [][]interface{}{}
	for i, n := range universe {
		if i < len(ex) {
			exist = append(exist, []interface{}{n, ex[i]})
		}
	}
	runLog = nil
	g := engine.NewGengine()
	err, pv := try(func() error { return g.Execute(rb, true) })
	run := []runRec{}
	run = append(run, runLog...)
	return Event{"ev": "rs_state", "sorted": sorted, "keys": keys, "exist": exist, "run": run,
		"runerr": err != nil, "runpanic": pv != nil}
}

func runRuleSet(s *Session) []Event {
	all := []Event{{"ev": "session", "id": s.ID}}
	rb := newBuilder()
	for _, op := range s.Ops {
		var err error
		var pv interface{}
		switch op.Kind {
		case "full":
			err, pv = try(func() error { return rb.BuildRuleFromString(echoText(op.Rules)) })
		case "incr":
			err, pv = try(func() error { return rb.BuildRuleWithIncremental(echoText(op.Rules)) })
		case "remove":
			err, pv = try(func() error { return rb.RemoveRules(op.Names) })
		case "bad":
			if op.Incr {
				err, pv = try(func() error { return rb.BuildRuleWithIncremental(op.Text) })
			} else {
				err, pv = try(func() error { return rb.BuildRuleFromString(op.Text) })
			}
		}
		ev := Event{"ev": "rs_op", "kind": op.Kind, "rules": nzr(op.Rules), "names": nzs(op.Names),
			"ok": err == nil && pv == nil, "panic": pv != nil}
		all = append(all, ev)
		all = append(all, builderState(rb, s.Universe))
	}
	return all
}

// ------------------------------------------------------------------ compile

func postOfBuilder(rb *builder.RuleBuilder) []map[string]interface{} {
	post := []map[string]interface{}{}
	for _, r := range rb.Kc.RuleEntities {
		post = append(post, map[string]interface{}{"name": r.RuleName, "sal": r.Salience, "desc": r.RuleDescription})
	}
	sort.Slice(post, func(i, j int) bool { return post[i]["name"].(string) < post[j]["name"].(string) })
	return post
}

// runs the installed rules; true iff exactly the base rules ran with their versions in non-increasing order
func runMatches(base []RDecl, exec func() error) bool {
	runLog = nil
	_, pv := try(exec)
	if pv != nil || len(runLog) != len(base) {
		return false
	}
	seen := map[string]bool{}
	for i, r := range runLog {
		var b *RDecl
		for j := range base {
			if base[j].Name == r.Name {
				b = &base[j]
			}
		}
		if b == nil || seen[r.Name] || b.Ver != r.Ver || b.Sal != r.Sal || b.Desc != r.Desc {
			return false
		}
		seen[r.Name] = true
		if i > 0 && runLog[i-1].Sal < r.Sal {
			return false
		}
	}
	return true
}

// what a sort-model run must show after a text of class "valid" was accepted: the declared rules (version 2) and,
// for an incremental entry point, the base rules it does not redefine
func expectedAfter(s *Session, incr bool, base []RDecl) []RDecl {
	var exp []RDecl
	for _, d := range s.Declared {
		d.Ver = 2
		exp = append(exp, d)
	}
	if incr {
		for _, b := range base {
			over := false
			for _, d := range s.Declared {
				if d.Name == b.Name {
					over = true
				}
			}
			if !over {
				exp = append(exp, b)
			}
		}
	}
	return exp
}

func postOfPool(p *engine.GenginePool, universe []string) ([]map[string]interface{}, int) {
	post := []map[string]interface{}{}
	ex := p.IsExist(universe)
	for i, n := range universe {
		if i < len(ex) && ex[i] {
			sal, e1 := p.GetRuleSalience(n)
			desc, e2 := p.GetRuleDesc(n)
			if e1 == nil && e2 == nil {
				post = append(post, map[string]interface{}{"name": n, "sal": sal, "desc": desc})
			}
		}
	}
	sort.Slice(post, func(i, j int) bool { return post[i]["name"].(string) < post[j]["name"].(string) })
	return post, p.GetRulesNumber()
}

func runCompile(s *Session) []Event {
	all := []Event{{"ev": "session", "id": s.ID}}
	all = append(all, Event{"ev": "cm_begin", "class": s.Class, "base": nzr(s.Base), "declared": nzr(s.Declared)})
	baseText := echoText(s.Base)
	universe := map[string]bool{"zz": true}
	for _, b := range s.Base {
		universe[b.Name] = true
	}
	for _, d := range s.Declared {
		universe[d.Name] = true
	}
	submit := func(ep string, ok bool, pv interface{}, nopool bool, post []map[string]interface{}, unchanged bool, extra Event) {
		ev := Event{"ev": "cm_submit", "ep": ep, "ok": ok, "panic": pv != nil, "nopool": nopool, "post": post, "unchanged": unchanged, "cleared": false}
		for k, v := range extra {
			ev[k] = v
		}
		if pv != nil {
			m := fmt.Sprint(pv)
			if len(m) > 200 {
				m = m[:200]
			}
			ev["panicmsg"] = m
		}
		all = append(all, ev)
	}
	// builder entry points
	for _, ep := range []string{"builder_full", "builder_incr"} {
		rb := newBuilder()
		if s.SelfFirst {
			_, _ = try(func() error { return rb.BuildRuleFromString(s.Text) })
			if err := rb.BuildRuleWithIncremental(baseText); err != nil {
				// the base text is valid: an entry point that refuses it (in whatever state it is) is recorded and judged
				all = append(all, Event{"ev": "cm_base", "ep": ep, "ok": false, "msg": fmt.Sprint(err)})
				return all
			}
			var extra []string
			for k := range rb.Kc.RuleEntities {
				isBase := false
				for _, b := range s.Base {
					if b.Name == k {
						isBase = true
					}
				}
				if !isBase {
					extra = append(extra, k)
				}
			}
			if len(extra) > 0 {
				_ = rb.RemoveRules(extra)
			}
		} else if s.BaseIncr {
			// an incremental build on a builder that holds nothing yet installs exactly the text's rules
			if err := rb.BuildRuleWithIncremental(baseText); err != nil {
				all = append(all, Event{"ev": "cm_base", "ep": ep, "ok": false, "msg": fmt.Sprint(err)})
				return all
			}
		} else if err := rb.BuildRuleFromString(baseText); err != nil {
			all = append(all, Event{"ev": "cm_base", "ep": ep, "ok": false, "msg": fmt.Sprint(err)})
			return all
		}
		var err error
		var pv interface{}
		if ep == "builder_full" {
			err, pv = try(func() error { return rb.BuildRuleFromString(s.Text) })
		} else {
			err, pv = try(func() error { return rb.BuildRuleWithIncremental(s.Text) })
		}
		ok := err == nil && pv == nil
		post := postOfBuilder(rb)
		for _, p := range post {
			universe[p["name"].(string)] = true
		}
		unchanged := true
		if !ok {
			g := engine.NewGengine()
			unchanged = runMatches(s.Base, func() error { return g.Execute(rb, true) })
		} else if s.Class == "valid" {
			g := engine.NewGengine()
			unchanged = runMatches(expectedAfter(s, ep == "builder_incr", s.Base), func() error { return g.Execute(rb, true) })
		}
		submit(ep, ok, pv, false, post, unchanged, nil)
	}
	var uni []string
	for k := range universe {
		uni = append(uni, k)
	}
	sort.Strings(uni)
	// pool constructor
	{
		var p *engine.GenginePool
		err, pv := try(func() error {
			var e error
			p, e = engine.NewGenginePool(1, 2, engine.SortModel, s.Text, api())
			return e
		})
		ok := err == nil && pv == nil
		post := []map[string]interface{}{}
		cnt := 0
		if ok && p != nil {
			post, cnt = postOfPool(p, uni)
		}
		submit("pool_new", ok, pv, p == nil, post, true, Event{"count": cnt})
	}
	for _, ep := range []string{"pool_full", "pool_incr"} {
		var p *engine.GenginePool
		var err error
		if s.SelfFirst {
			_, _ = try(func() error {
				var e error
				p, e = engine.NewGenginePool(1, 2, engine.SortModel, s.Text, api())
				return e
			})
			if p != nil {
				if e := p.UpdatePooledRulesIncremental(baseText); e != nil {
					all = append(all, Event{"ev": "cm_base", "ep": ep, "ok": false, "msg": fmt.Sprint(e)})
					return all
				}
				var extra []string
				ex := p.IsExist(uni)
				for i, n := range uni {
					isBase := false
					for _, b := range s.Base {
						if b.Name == n {
							isBase = true
						}
					}
					if i < len(ex) && ex[i] && !isBase {
						extra = append(extra, n)
					}
				}
				if len(extra) > 0 {
					_ = p.RemoveRules(extra)
				}
			}
		}
		if p == nil {
			p, err = engine.NewGenginePool(1, 2, engine.SortModel, baseText, api())
			if err != nil {
				all = append(all, Event{"ev": "cm_base", "ep": ep, "ok": false, "msg": fmt.Sprint(err)})
				return all
			}
		}
		base := s.Base
		if s.Cleared {
			// "in any state of the pool": the pool was emptied before the text arrives
			p.ClearPoolRules()
			base = nil
		}
		var pv interface{}
		if ep == "pool_full" {
			err, pv = try(func() error { return p.UpdatePooledRules(s.Text) })
		} else {
			err, pv = try(func() error { return p.UpdatePooledRulesIncremental(s.Text) })
		}
		ok := err == nil && pv == nil
		post, cnt := postOfPool(p, uni)
		unchanged := true
		run := func() error {
			e, _ := p.Execute(map[string]interface{}{}, true)
			return e
		}
		if !ok {
			unchanged = cnt == len(base) && runMatches(base, run)
		} else if s.Class == "valid" {
			exp := expectedAfter(s, ep == "pool_incr", base)
			unchanged = cnt == len(exp) && runMatches(exp, run)
		}
		submit(ep, ok, pv, false, post, unchanged, Event{"count": cnt, "cleared": s.Cleared})
	}
	return all
}

func main() {
	in := flag.String("in", "", "sessions ndjson")
	out := flag.String("out", "", "trace ndjson (appended)")
	journal := flag.String("journal", "", "journal file")
	shard := flag.String("shard", "0/1", "i/n")
	from := flag.Int("from", 0, "skip sessions with index < from")
	_ = flag.Duration("quiet", 0, "unused")
	ctmo := flag.Duration("calltimeout", 20*time.Second, "per-session watchdog")
	_ = flag.Int64("seed", 1, "unused")
	flag.Parse()
	var si, sn int
	fmt.Sscanf(*shard, "%d/%d", &si, &sn)
	f, err := os.Open(*in)
	if err != nil {
		fmt.Fprintln(os.Stderr, err)
		os.Exit(2)
	}
	of, _ := os.OpenFile(*out, os.O_APPEND|os.O_CREATE|os.O_WRONLY, 0o644)
	jf, _ := os.OpenFile(*journal, os.O_APPEND|os.O_CREATE|os.O_WRONLY, 0o644)
	sc := bufio.NewScanner(f)
	sc.Buffer(make([]byte, 1<<20), 1<<26)
	i := -1
	for sc.Scan() {
		line := sc.Bytes()
		if len(strings.TrimSpace(string(line))) == 0 {
			continue
		}
		i++
		if i%sn != si || i < *from {
			continue
		}
		var s Session
		if err := json.Unmarshal(line, &s); err != nil {
			fmt.Fprintf(os.Stderr, "driver: bad session line %d: %v\n", i, err)
			os.Exit(2)
		}
		fmt.Fprintf(jf, "%d %d\n", i, s.ID)
		var evs []Event
		if s.Text64 != "" {
			b, err := base64.StdEncoding.DecodeString(s.Text64)
			if err != nil {
				fmt.Fprintf(os.Stderr, "driver: bad base64 in session %d\n", s.ID)
				os.Exit(2)
			}
			s.Text = string(b)
		}
		// every entry point must return: a session that does not come back within the budget is recorded as such
		// (the runner re-runs it alone with ten times the budget before it counts)
		donec := make(chan []Event, 1)
		go func() {
			if s.Kind == "compile" {
				donec <- runCompile(&s)
			} else {
				donec <- runRuleSet(&s)
			}
		}()
		hung := false
		select {
		case evs = <-donec:
		case <-time.After(*ctmo):
			evs = []Event{{"ev": "session", "id": s.ID}, {"ev": "timeout"}}
			hung = true
		}
		var sb strings.Builder
		for _, e := range evs {
			b, _ := json.Marshal(e)
			sb.Write(b)
			sb.WriteByte('\n')
		}
		of.WriteString(sb.String())
		fmt.Fprintf(jf, "done %d\n", i)
		if hung {
			os.Exit(3) // a goroutine is stuck: the runner restarts behind this session
		}
	}
}
