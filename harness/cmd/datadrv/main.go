// datadrv executes the cells of spec/LangData.tla (C03): for every access-path
// form x target kind x source class it builds a host object graph, snapshots it,
// runs a one-assignment (or one-read / one-call) rule with representable values
// and records whether the target holds the value and everything else is untouched.
package main

import (
	"bufio"
	"encoding/json"
	"flag"
	"fmt"
	"math"
	"math/rand"
	"os"
	"reflect"
	"strconv"
	"strings"

	"github.com/bilibili/gengine/builder"
	"github.com/bilibili/gengine/context"
	"github.com/bilibili/gengine/engine"
)

type Cell struct {
	ID      int    `json:"id"`
	Seed    int64  `json:"seed"`
	Draws   int    `json:"draws"`
	What    string `json:"what"`
	Path    string `json:"path"`
	Kind    string `json:"kind"`
	Src     string `json:"src"`
	Outcome string `json:"outcome"`
}

type Inner struct {
	Fint8    int8
	Fint16   int16
	Fint32   int32
	Fint64   int64
	Fint     int
	Fuint8   uint8
	Fuint16  uint16
	Fuint32  uint32
	Fuint64  uint64
	Fuint    uint
	Ffloat32 float32
	Ffloat64 float64
	Fstring  string
	Fbool    bool
}

type Obj struct {
	Fint8    int8
	Fint16   int16
	Fint32   int32
	Fint64   int64
	Fint     int
	Fuint8   uint8
	Fuint16  uint16
	Fuint32  uint32
	Fuint64  uint64
	Fuint    uint
	Ffloat32 float32
	Ffloat64 float64
	Fstring  string
	Fbool    bool
	In       *Inner
	Inv      Inner // a struct held by value: two-level accesses go through it
	M        map[string]int64
	S        []int64
	Other    int64
}

var kindType = map[string]reflect.Type{
	"int8": reflect.TypeOf(int8(0)), "int16": reflect.TypeOf(int16(0)), "int32": reflect.TypeOf(int32(0)),
	"int64": reflect.TypeOf(int64(0)), "int": reflect.TypeOf(int(0)),
	"uint8": reflect.TypeOf(uint8(0)), "uint16": reflect.TypeOf(uint16(0)), "uint32": reflect.TypeOf(uint32(0)),
	"uint64": reflect.TypeOf(uint64(0)), "uint": reflect.TypeOf(uint(0)),
	"float32": reflect.TypeOf(float32(0)), "float64": reflect.TypeOf(float64(0)),
	"string": reflect.TypeOf(""), "bool": reflect.TypeOf(false),
}

func classOf(k string) string {
	switch {
	case strings.HasPrefix(k, "int"):
		return "int"
	case strings.HasPrefix(k, "uint"):
		return "uint"
	case strings.HasPrefix(k, "float"):
		return "float"
	case k == "string":
		return "str"
	}
	return "bool"
}

// a numeric test value as a float64 that is exactly representable in both kinds (integral, small enough)
func representable(r *rand.Rand, src, kind string) (float64, bool) {
	sc, tc := classOf(src), classOf(kind)
	if sc == "str" || sc == "bool" || tc == "str" || tc == "bool" {
		return 0, false
	}
	lim := func(k string) (lo, hi float64) {
		switch k {
		case "int8":
			return -128, 127
		case "int16":
			return -32768, 32767
		case "int32":
			return -2147483648, 2147483647
		case "int64", "int":
			return -(1 << 53), 1 << 53
		case "uint8":
			return 0, 255
		case "uint16":
			return 0, 65535
		case "uint32":
			return 0, 4294967295
		case "uint64", "uint":
			return 0, 1 << 53
		case "float32":
			return -(1 << 24), 1 << 24
		}
		return -(1 << 53), 1 << 53
	}
	lo1, hi1 := lim(src)
	lo2, hi2 := lim(kind)
	lo, hi := math.Max(lo1, lo2), math.Min(hi1, hi2)
	cands := []float64{0, 1, 2, 7, 100, hi, hi - 1, lo, lo + 1, -1, -5}
	var ok []float64
	for _, c := range cands {
		if c >= lo && c <= hi {
			ok = append(ok, c)
		}
	}
	v := ok[r.Intn(len(ok))]
	if sc == "float" && tc == "float" && r.Intn(2) == 0 {
		v = []float64{0.5, -2.25, 1.5, 1024.125}[r.Intn(4)] // fractions that float32 holds exactly
	}
	return v, true
}

// integers beyond 2^53 between the 64-bit integer kinds (a conversion that goes through float64 loses them)
func bigFor(r *rand.Rand, src, kind string) (int64, bool) {
	is64 := func(k string) bool { return k == "int64" || k == "int" || k == "uint64" || k == "uint" }
	if !is64(src) || !is64(kind) || r.Intn(3) != 0 {
		return 0, false
	}
	return []int64{1<<53 + 1, 1700000000123456789, math.MaxInt64, math.MaxInt64 - 2, 1<<62 + 12345}[r.Intn(5)], true
}

func mkInt(kind string, v int64) reflect.Value {
	x := reflect.New(kindType[kind]).Elem()
	if classOf(kind) == "uint" {
		x.SetUint(uint64(v))
	} else {
		x.SetInt(v)
	}
	return x
}

func exactEq(got reflect.Value, v int64) bool {
	switch got.Kind() {
	case reflect.Int, reflect.Int8, reflect.Int16, reflect.Int32, reflect.Int64:
		return got.Int() == v
	case reflect.Uint, reflect.Uint8, reflect.Uint16, reflect.Uint32, reflect.Uint64:
		return v >= 0 && got.Uint() == uint64(v)
	}
	return false
}

func mk(kind string, f float64, s string, b bool) reflect.Value {
	t := kindType[kind]
	v := reflect.New(t).Elem()
	switch classOf(kind) {
	case "int":
		v.SetInt(int64(f))
	case "uint":
		v.SetUint(uint64(f))
	case "float":
		v.SetFloat(f)
	case "str":
		v.SetString(s)
	default:
		v.SetBool(b)
	}
	return v
}

func num(v reflect.Value) (float64, bool) {
	switch v.Kind() {
	case reflect.Int, reflect.Int8, reflect.Int16, reflect.Int32, reflect.Int64:
		return float64(v.Int()), true
	case reflect.Uint, reflect.Uint8, reflect.Uint16, reflect.Uint32, reflect.Uint64:
		return float64(v.Uint()), true
	case reflect.Float32, reflect.Float64:
		return v.Float(), true
	}
	return 0, false
}

type world struct {
	obj  *Obj
	dyn  map[string]reflect.Value // injected dynamic containers by name
	args []reflect.Value          // arguments received by the last call
}

func newWorld(kind string, r *rand.Rand) *world {
	t := kindType[kind]
	w := &world{dyn: map[string]reflect.Value{}}
	w.obj = &Obj{Fint8: 1, Fint16: 2, Fint32: 3, Fint64: 4, Fint: 5, Fuint8: 6, Fuint16: 7, Fuint32: 8, Fuint64: 9, Fuint: 10,
		Ffloat32: 1.5, Ffloat64: 2.5, Fstring: "old", Fbool: false, Other: 77,
		In: &Inner{Fint8: 11, Fint16: 12, Fint32: 13, Fint64: 14, Fint: 15, Fuint8: 16, Fuint16: 17, Fuint32: 18, Fuint64: 19, Fuint: 20,
			Ffloat32: 3.5, Ffloat64: 4.5, Fstring: "inner", Fbool: true},
		M: map[string]int64{"k": 21, "other": 22}, S: []int64{31, 32, 33}}
	old := func(i int) reflect.Value { return mk(kind, float64(40+i), fmt.Sprintf("o%d", i), i%2 == 0) }
	ms := reflect.MakeMap(reflect.MapOf(reflect.TypeOf(""), t))
	ms.SetMapIndex(reflect.ValueOf("k"), old(1))
	ms.SetMapIndex(reflect.ValueOf("other"), old(2))
	w.dyn["ms"] = ms
	mi := reflect.MakeMap(reflect.MapOf(reflect.TypeOf(int(0)), t))
	mi.SetMapIndex(reflect.ValueOf(3), old(3))
	mi.SetMapIndex(reflect.ValueOf(4), old(4))
	w.dyn["mi"] = mi
	sl := reflect.MakeSlice(reflect.SliceOf(t), 3, 3)
	for i := 0; i < 3; i++ {
		sl.Index(i).Set(old(5 + i))
	}
	w.dyn["sl"] = sl
	ar := reflect.New(reflect.ArrayOf(3, t))
	for i := 0; i < 3; i++ {
		ar.Elem().Index(i).Set(old(8 + i))
	}
	w.dyn["ar"] = ar
	p := reflect.New(t)
	p.Elem().Set(old(11))
	w.dyn["p"] = p
	// the same map / slice values once more, injected by pointer
	for _, n := range []string{"ms", "mi", "sl"} {
		pp := reflect.New(w.dyn[n].Type())
		pp.Elem().Set(w.dyn[n])
		w.dyn["p"+n] = pp
	}
	return w
}

// snapshot as a comparable string of everything observable
func (w *world) snap() map[string]string {
	m := map[string]string{}
	ov := reflect.ValueOf(w.obj).Elem()
	for i := 0; i < ov.NumField(); i++ {
		f := ov.Type().Field(i)
		if f.Name == "In" {
			iv := ov.Field(i).Elem()
			for j := 0; j < iv.NumField(); j++ {
				m["obj.In."+iv.Type().Field(j).Name] = fmt.Sprintf("%#v", iv.Field(j).Interface())
			}
			continue
		}
		if f.Name == "Inv" {
			iv := ov.Field(i)
			for j := 0; j < iv.NumField(); j++ {
				m["obj.Inv."+iv.Type().Field(j).Name] = fmt.Sprintf("%#v", iv.Field(j).Interface())
			}
			continue
		}
		if f.Name == "M" {
			for k, v := range w.obj.M {
				m["obj.M["+k+"]"] = fmt.Sprint(v)
			}
			continue
		}
		if f.Name == "S" {
			for k, v := range w.obj.S {
				m[fmt.Sprintf("obj.S[%d]", k)] = fmt.Sprint(v)
			}
			continue
		}
		m["obj."+f.Name] = fmt.Sprintf("%#v", ov.Field(i).Interface())
	}
	for _, k := range w.dyn["ms"].MapKeys() {
		m["ms["+k.String()+"]"] = fmt.Sprintf("%#v", w.dyn["ms"].MapIndex(k).Interface())
	}
	for _, k := range w.dyn["mi"].MapKeys() {
		m[fmt.Sprintf("mi[%d]", k.Int())] = fmt.Sprintf("%#v", w.dyn["mi"].MapIndex(k).Interface())
	}
	for i := 0; i < 3; i++ {
		m[fmt.Sprintf("sl[%d]", i)] = fmt.Sprintf("%#v", w.dyn["sl"].Index(i).Interface())
		m[fmt.Sprintf("ar[%d]", i)] = fmt.Sprintf("%#v", w.dyn["ar"].Elem().Index(i).Interface())
	}
	m["p"] = fmt.Sprintf("%#v", w.dyn["p"].Elem().Interface())
	return m
}

// the DSL text of the path, the snapshot key of the target, and an accessor of the target value
func (w *world) target(path, kind string) (text, key string, get func() reflect.Value, pre string) {
	switch path {
	case "field":
		return "obj.F" + kind, "obj.F" + kind, func() reflect.Value { return reflect.ValueOf(w.obj).Elem().FieldByName("F" + kind) }, ""
	case "field2":
		return "obj.In.F" + kind, "obj.In.F" + kind, func() reflect.Value { return reflect.ValueOf(w.obj.In).Elem().FieldByName("F" + kind) }, ""
	case "field2v":
		return "obj.Inv.F" + kind, "obj.Inv.F" + kind, func() reflect.Value { return reflect.ValueOf(&w.obj.Inv).Elem().FieldByName("F" + kind) }, ""
	case "ptr":
		return "p", "p", func() reflect.Value { return w.dyn["p"].Elem() }, ""
	case "mapstr":
		return "ms[\"k\"]", "ms[k]", func() reflect.Value { return w.dyn["ms"].MapIndex(reflect.ValueOf("k")) }, ""
	case "mapint":
		return "mi[3]", "mi[3]", func() reflect.Value { return w.dyn["mi"].MapIndex(reflect.ValueOf(3)) }, ""
	case "mapvar":
		return "ms[kv]", "ms[k]", func() reflect.Value { return w.dyn["ms"].MapIndex(reflect.ValueOf("k")) }, "kv = \"k\"\n  "
	case "mapintvar":
		return "mi[iv3]", "mi[3]", func() reflect.Value { return w.dyn["mi"].MapIndex(reflect.ValueOf(3)) }, "iv3 = 3\n  "
	case "pmapstr":
		return "pms[\"k\"]", "ms[k]", func() reflect.Value { return w.dyn["ms"].MapIndex(reflect.ValueOf("k")) }, ""
	case "pmapint":
		return "pmi[3]", "mi[3]", func() reflect.Value { return w.dyn["mi"].MapIndex(reflect.ValueOf(3)) }, ""
	case "pmapvar":
		return "pms[kv]", "ms[k]", func() reflect.Value { return w.dyn["ms"].MapIndex(reflect.ValueOf("k")) }, "kv = \"k\"\n  "
	case "pmapintvar":
		return "pmi[iv3]", "mi[3]", func() reflect.Value { return w.dyn["mi"].MapIndex(reflect.ValueOf(3)) }, "iv3 = 3\n  "
	case "pslice":
		return "psl[1]", "sl[1]", func() reflect.Value { return w.dyn["sl"].Index(1) }, ""
	case "pslicevar":
		return "psl[iv]", "sl[2]", func() reflect.Value { return w.dyn["sl"].Index(2) }, "iv = 2\n  "
	case "slice":
		return "sl[1]", "sl[1]", func() reflect.Value { return w.dyn["sl"].Index(1) }, ""
	case "slicevar":
		return "sl[iv]", "sl[2]", func() reflect.Value { return w.dyn["sl"].Index(2) }, "iv = 2\n  "
	case "array":
		return "ar[1]", "ar[1]", func() reflect.Value { return w.dyn["ar"].Elem().Index(1) }, ""
	case "fieldmap":
		return "obj.M[\"k\"]", "obj.M[k]", func() reflect.Value { return reflect.ValueOf(w.obj.M["k"]) }, ""
	case "fieldslice":
		return "obj.S[1]", "obj.S[1]", func() reflect.Value { return reflect.ValueOf(w.obj.S[1]) }, ""
	}
	panic("unknown path " + path)
}

func (w *world) inject(dc *context.DataContext) {
	dc.Add("obj", w.obj)
	dc.Add("ms", w.dyn["ms"].Interface())
	dc.Add("mi", w.dyn["mi"].Interface())
	dc.Add("sl", w.dyn["sl"].Interface())
	dc.Add("ar", w.dyn["ar"].Interface())
	dc.Add("p", w.dyn["p"].Interface())
	dc.Add("pms", w.dyn["pms"].Interface())
	dc.Add("pmi", w.dyn["pmi"].Interface())
	dc.Add("psl", w.dyn["psl"].Interface())
}

type Meth struct{ w *world }

func (m *Meth) record(args []reflect.Value) { m.w.args = args }

type result struct {
	Ev      string      `json:"ev"`
	OK      bool        `json:"ok"`
	Skipped string      `json:"skipped,omitempty"`
	Kind    string      `json:"kind,omitempty"`
	Why     string      `json:"why,omitempty"`
	Text    string      `json:"text,omitempty"`
	Cell    interface{} `json:"cell,omitempty"`
}

// twinA and twinB declare a local type of the same name each: both print as "main.Rec", the fields stand at different positions
func twinA(n int64, s string) interface{} {
	type Rec struct {
		N   int64
		S   string
		Pad int64
	}
	return &Rec{N: n, S: s, Pad: 55}
}

func twinB(n int64, s string) interface{} {
	type Rec struct {
		Pad int64
		S   string
		N   int64
	}
	return &Rec{N: n, S: s, Pad: 55}
}

func exec(text string, setup func(dc *context.DataContext)) (map[string]interface{}, error, interface{}) {
	dc := context.NewDataContext()
	setup(dc)
	rb := builder.NewRuleBuilder(dc)
	if err := rb.BuildRuleFromString(text); err != nil {
		return nil, fmt.Errorf("COMPILE: %v", err), nil
	}
	g := engine.NewGengine()
	var err error
	var pv interface{}
	func() {
		defer func() {
			if x := recover(); x != nil {
				pv = x
			}
		}()
		err = g.Execute(rb, true)
	}()
	res, _ := g.GetRulesResultMap()
	return res, err, pv
}

func diff(a, b map[string]string, except string) []string {
	var d []string
	for k, v := range a {
		if k != except && b[k] != v {
			d = append(d, fmt.Sprintf("%s: %s -> %s", k, v, b[k]))
		}
	}
	for k := range b {
		if _, ok := a[k]; !ok && k != except {
			d = append(d, k+": new "+b[k])
		}
	}
	return d
}

func runCell(c *Cell) []result {
	out := []result{{Ev: "session"}}
	r := rand.New(rand.NewSource(c.Seed))
	fail := func(kind, why, text string) {
		out = append(out, result{Ev: "case", OK: false, Kind: kind, Why: why, Text: text, Cell: c})
	}
	srcHow := c.Src
	if c.Src == "" || c.What == "reread" {
		c.Src = "int64"
	}
	for d := 0; d < c.Draws; d++ {
		w := newWorld(c.Kind, r)
		// the source value
		var srcText string
		var srcVal reflect.Value
		f, isNum := representable(r, c.Src, c.Kind)
		if !isNum && classOf(c.Src) != "str" && classOf(c.Src) != "bool" {
			f = float64(r.Intn(5)) // numeric source into a non-numeric target (unspecified cell)
		}
		sv, bv := []string{"new", "", "x y"}[r.Intn(3)], r.Intn(2) == 0
		srcVal = mk(c.Src, f, sv, bv)
		big, isBig := bigFor(r, c.Src, c.Kind)
		if isBig && (c.What == "store" || c.What == "call") {
			srcVal = mkInt(c.Src, big)
		} else {
			isBig = false
		}
		switch {
		case isBig && c.Src == "int64" && r.Intn(2) == 0:
			srcText = strconv.FormatInt(big, 10)
		case isBig:
			srcText = "src"
		case c.Src == "int64" && r.Intn(2) == 0:
			srcText = fmt.Sprint(int64(f))
		case c.Src == "float64" && r.Intn(2) == 0:
			srcText = strconv.FormatFloat(f, 'f', -1, 64)
			if !strings.Contains(srcText, ".") {
				srcText += ".0"
			}
		case c.Src == "string" && r.Intn(2) == 0:
			srcText = "\"" + sv + "\""
		case c.Src == "bool" && r.Intn(2) == 0:
			srcText = fmt.Sprint(bv)
		default:
			srcText = "src"
		}
		setup := func(dc *context.DataContext) {
			w.inject(dc)
			dc.Add("src", srcVal.Interface())
		}
		switch c.What {
		case "store":
			tt, key, get, pre := w.target(c.Path, c.Kind)
			if strings.HasPrefix(c.Path, "field") && c.Path != "field" && c.Path != "field2" && c.Kind != "int64" {
				out = append(out, result{Ev: "case", OK: true, Skipped: "struct-held containers exist for int64 only"})
				continue
			}
			before := w.snap()
			asg := []string{"=", "="," :="}[r.Intn(3)] // both spellings of a plain assignment
			text := fmt.Sprintf("rule \"r\" begin\n  %s%s %s %s\nend\n", pre, tt, strings.TrimSpace(asg), srcText)
			_, err, pv := exec(text, setup)
			if err != nil && strings.HasPrefix(err.Error(), "COMPILE") {
				fail("compile", err.Error(), text)
				continue
			}
			after := w.snap()
			if pv != nil {
				fail("panic", fmt.Sprint(pv), text)
				continue
			}
			if c.Outcome != "conv" {
				out = append(out, result{Ev: "case", OK: true, Skipped: "unspecified cell (contained: no panic)"})
				continue
			}
			if err != nil {
				fail("store-fails", err.Error()[:min(200, len(err.Error()))], text)
				continue
			}
			got := get()
			okv := false
			if isBig {
				okv = exactEq(got, big)
			} else if isNum {
				g, _ := num(got)
				okv = g == f
			} else if classOf(c.Kind) == "str" {
				okv = got.String() == sv
			} else {
				okv = got.Bool() == bv
			}
			if !okv {
				fail("wrong-stored-value", fmt.Sprintf("target holds %#v, assigned %#v", got.Interface(), srcVal.Interface()), text)
				continue
			}
			if df := diff(before, after, key); len(df) > 0 {
				fail("collateral-change", strings.Join(df, "; "), text)
				continue
			}
			out = append(out, result{Ev: "case", OK: true})
		case "read", "readmissing":
			tt, _, get, pre := w.target(c.Path, c.Kind)
			if (c.Path == "fieldmap" || c.Path == "fieldslice") && c.Kind != "int64" {
				out = append(out, result{Ev: "case", OK: true, Skipped: "struct-held containers exist for int64 only"})
				continue
			}
			var want reflect.Value
			if c.What == "readmissing" {
				tt = strings.Replace(strings.Replace(tt, "\"k\"", "\"absent\"", 1), "mi[3]", "mi[99]", 1)
				pre = strings.Replace(strings.Replace(pre, "\"k\"", "\"absent\"", 1), "iv3 = 3", "iv3 = 99", 1)
				want = reflect.Zero(kindType[c.Kind])
				if c.Path == "fieldmap" {
					want = reflect.Zero(kindType["int64"])
				}
			} else {
				want = get()
			}
			if c.Path == "ptr" {
				out = append(out, result{Ev: "case", OK: true, Skipped: "reading a pointer-injected scalar yields the pointer (no promise)"})
				continue
			}
			before := w.snap()
			text := fmt.Sprintf("rule \"r\" begin\n  %sreturn %s\nend\n", pre, tt)
			res, err, pv := exec(text, setup)
			after := w.snap()
			if pv != nil || err != nil {
				fail("read-fails", fmt.Sprint(pv, err), text)
				continue
			}
			got := res["r"]
			if got == nil || !reflect.DeepEqual(got, want.Interface()) {
				fail("wrong-read-value", fmt.Sprintf("read %#v, the host holds %#v", got, want.Interface()), text)
				continue
			}
			if df := diff(before, after, ""); len(df) > 0 {
				fail("collateral-change", strings.Join(df, "; "), text)
				continue
			}
			out = append(out, result{Ev: "case", OK: true})
		case "call":
			pt := kindType[c.Kind]
			// f(x K) K records its argument and hands it back; func2 has a second result
			var fn reflect.Value
			nOut := 1
			if c.Path == "func2" || c.Path == "funcerr" {
				nOut = 2
			}
			outs := []reflect.Type{pt}
			if c.Path == "funcerr" {
				outs = append(outs, reflect.TypeOf((*error)(nil)).Elem())
			} else if nOut == 2 {
				outs = append(outs, reflect.TypeOf(""))
			}
			ft := reflect.FuncOf([]reflect.Type{reflect.TypeOf(int64(0)), pt, reflect.TypeOf("")}, outs, false)
			if c.Path == "funcrev" {
				// f(s string, x K, n int) K: every argument is converted to its parameter's type, wherever it stands
				ft = reflect.FuncOf([]reflect.Type{reflect.TypeOf(""), pt, reflect.TypeOf(int(0))}, outs, false)
			}
			var got []reflect.Value
			fn = reflect.MakeFunc(ft, func(args []reflect.Value) []reflect.Value {
				got = args
				if c.Path == "funcrev" {
					// same positions as the other forms for the checks below: (int, K, string)
					got = []reflect.Value{reflect.ValueOf(args[2].Int()), args[1], args[0]}
				}
				if c.Path == "funcerr" {
					// the Go convention (value, error) with a non-nil error: the rule still gets the first result
					return []reflect.Value{args[1], reflect.ValueOf(fmt.Errorf("second result")).Convert(reflect.TypeOf((*error)(nil)).Elem())}
				}
				if nOut == 2 {
					return []reflect.Value{args[1], reflect.ValueOf("second")}
				}
				return []reflect.Value{args[1]}
			})
			callText := "f(7, " + srcText + ", \"tail\")"
			if c.Path == "funcrev" {
				callText = "f(\"tail\", " + srcText + ", 7)"
			}
			hold := &Holder{F: fn.Interface(), In: &HolderIn{}}
			curFn = fn
			vh := VHolder{Tag: 5}
			ph := &VHolder{Tag: 6}
			switch c.Path {
			case "vthenp":
				callText = "ph.Call" + c.Kind + "(7, " + srcText + ", \"tail\")"
			case "method":
				callText = "hold.Call" + c.Kind + "(7, " + srcText + ", \"tail\")"
			case "three":
				callText = "hold.In.Call" + c.Kind + "(7, " + srcText + ", \"tail\")"
			}
			if (c.Path == "method" || c.Path == "three" || c.Path == "vthenp") && !reflect.ValueOf(hold).MethodByName("Call"+c.Kind).IsValid() {
				out = append(out, result{Ev: "case", OK: true, Skipped: "methods exist for int8 int64 uint16 uint64 float32 float64 string bool"})
				continue
			}
			before := w.snap()
			text := fmt.Sprintf("rule \"r\" begin\n  return %s\nend\n", callText)
			if c.Path == "vthenp" {
				text = fmt.Sprintf("rule \"r\" begin\n  first = vh.Call%s(7, %s, \"tail\")\n  return %s\nend\n", c.Kind, srcText, callText)
			}
			gotArgs = nil
			res, err, pv := exec(text, func(dc *context.DataContext) {
				setup(dc)
				dc.Add("f", fn.Interface())
				dc.Add("hold", hold)
				dc.Add("vh", vh)
				dc.Add("ph", ph)
			})
			after := w.snap()
			if got == nil && gotArgs != nil {
				got = gotArgs
			}
			if pv != nil {
				fail("panic", fmt.Sprint(pv), text)
				continue
			}
			if c.Outcome != "conv" {
				out = append(out, result{Ev: "case", OK: true, Skipped: "unspecified cell (contained: no panic)"})
				continue
			}
			if err != nil {
				fail("call-fails", err.Error()[:min(200, len(err.Error()))], text)
				continue
			}
			if len(got) != 3 || got[0].Int() != 7 || got[2].String() != "tail" {
				fail("arguments-not-positional", fmt.Sprint(got), text)
				continue
			}
			okv := false
			if isBig {
				okv = exactEq(got[1], big) && got[1].Kind() == pt.Kind()
			} else if isNum {
				g, _ := num(got[1])
				okv = g == f && got[1].Kind() == pt.Kind()
			} else if classOf(c.Kind) == "str" {
				okv = got[1].String() == sv
			} else {
				okv = got[1].Bool() == bv
			}
			if !okv {
				fail("wrong-argument", fmt.Sprintf("callee received %#v for %#v", got[1].Interface(), srcVal.Interface()), text)
				continue
			}
			if c.Path == "vthenp" && (ph.Tag != 6 || vh.Tag != 5) {
				fail("wrong-method", fmt.Sprintf("the receivers changed: vh.Tag=%d ph.Tag=%d", vh.Tag, ph.Tag), text)
				continue
			}
			if rv, ok := res["r"]; !ok || !reflect.DeepEqual(rv, got[1].Interface()) {
				fail("not-first-result", fmt.Sprintf("call yielded %#v, first result was %#v", res["r"], got[1].Interface()), text)
				continue
			}
			if df := diff(before, after, ""); len(df) > 0 {
				fail("collateral-change", strings.Join(df, "; "), text)
				continue
			}
			out = append(out, result{Ev: "case", OK: true})
		case "reread":
			// c.Src holds how the data changes between the two reads: "value" (in place, by the host between two
			// executions), "pointer" (the host replaces the pointer on the path), "inrule" (an injected function
			// called by the rule replaces it between two reads inside one execution)
			how := srcHow
			tt, _, get, _ := w.target(c.Path, c.Kind)
			if how != "value" && c.Path != "field2" {
				out = append(out, result{Ev: "case", OK: true, Skipped: "only the two-level field path has a pointer to replace"})
				continue
			}
			newv := mk(c.Kind, float64(60+r.Intn(30)), "fresh", true)
			mutate := func() {
				switch how {
				case "value":
					if c.Path == "mapstr" || c.Path == "pmapstr" {
						w.dyn["ms"].SetMapIndex(reflect.ValueOf("k"), newv)
					} else {
						get().Set(newv)
					}
				default:
					ni := *w.obj.In
					w.obj.In = &ni
					reflect.ValueOf(w.obj.In).Elem().FieldByName("F" + c.Kind).Set(newv)
				}
			}
			dc := context.NewDataContext()
			w.inject(dc)
			dc.Add("swap", func() { mutate() })
			var text string
			if how == "inrule" {
				text = fmt.Sprintf("rule \"r\" begin\n  first = %s\n  swap()\n  return %s\nend\n", tt, tt)
			} else {
				text = fmt.Sprintf("rule \"r\" begin\n  return %s\nend\n", tt)
			}
			rb := builder.NewRuleBuilder(dc)
			if err := rb.BuildRuleFromString(text); err != nil {
				fail("compile", err.Error(), text)
				continue
			}
			g := engine.NewGengine()
			var res map[string]interface{}
			var err error
			if how == "inrule" {
				err = g.Execute(rb, true)
				res, _ = g.GetRulesResultMap()
			} else {
				err = g.Execute(rb, true)
				first, _ := g.GetRulesResultMap()
				_ = first
				mutate()
				if err == nil {
					err = g.Execute(rb, true)
				}
				res, _ = g.GetRulesResultMap()
			}
			if err != nil {
				fail("read-fails", err.Error()[:min(200, len(err.Error()))], text)
				continue
			}
			if !reflect.DeepEqual(res["r"], newv.Interface()) {
				fail("stale-read", fmt.Sprintf("read %#v after the data changed (%s) to %#v", res["r"], how, newv.Interface()), text)
				continue
			}
			out = append(out, result{Ev: "case", OK: true})
		case "twin":
			// two types that print alike (both "main.Rec") with the same field names at different positions
			n1, n2 := int64(100+r.Intn(100)), int64(300+r.Intn(100))
			objs := []interface{}{twinA(n1, "sa"), twinB(n2, "sb")}
			fld, lit := "N", "7"
			if c.Kind == "string" {
				fld, lit = "S", "\"w\""
			}
			bad := false
			for k, o := range objs {
				var text string
				if c.Path == "read" {
					text = fmt.Sprintf("rule \"r\" begin\n  return rec.%s\nend\n", fld)
				} else {
					text = fmt.Sprintf("rule \"r\" begin\n  rec.%s = %s\n  return rec.%s\nend\n", fld, lit, fld)
				}
				res, err, pv := exec(text, func(dc *context.DataContext) { dc.Add("rec", o) })
				if pv != nil || err != nil {
					fail("twin-fails", fmt.Sprint(pv, err), text)
					bad = true
					break
				}
				ov := reflect.ValueOf(o).Elem()
				var want interface{}
				if c.Kind == "string" {
					want = []string{"sa", "sb"}[k]
					if c.Path == "store" {
						want = "w"
					}
				} else {
					want = []int64{n1, n2}[k]
					if c.Path == "store" {
						want = int64(7)
					}
				}
				// the other fields of the object keep their values, the named one holds `want`
				okf := reflect.DeepEqual(ov.FieldByName(fld).Interface(), want) && reflect.DeepEqual(res["r"], want)
				if c.Kind == "string" {
					okf = okf && ov.FieldByName("N").Int() == []int64{n1, n2}[k] && ov.FieldByName("Pad").Int() == 55
				} else {
					okf = okf && ov.FieldByName("S").String() == []string{"sa", "sb"}[k] && ov.FieldByName("Pad").Int() == 55
				}
				if !okf {
					fail("twin-wrong-field", fmt.Sprintf("object %d of type %s: rule got %#v, object now %#v, expected field %s = %#v", k, ov.Type(), res["r"], ov.Interface(), fld, want), text)
					bad = true
					break
				}
			}
			if !bad {
				out = append(out, result{Ev: "case", OK: true})
			}
		case "shadow":
			// a name that is injected always refers to the injected object, even if a local of that name is assigned
			before := w.snap()
			v := int64(1 + r.Intn(100))
			var text string
			if c.Path == "ptr" {
				text = fmt.Sprintf("rule \"r\" begin\n  p %s %d\n  loc = 5\n  return loc\nend\n", []string{"=", ":="}[r.Intn(2)], v)
			} else if c.Path == "late" {
				// `late` is a rule local first; then a function called by the rule injects an object under that name
				text = fmt.Sprintf("rule \"r\" begin\n  late = %d\n  first = late\n  injectLate()\n  return late\nend\n", v+1000)
			} else {
				text = fmt.Sprintf("rule \"r\" begin\n  val %s %d\n  return val\nend\n", []string{"=", ":="}[r.Intn(2)], v)
			}
			orig := mk(c.Kind, 3, "", false)
			res, err, pv := exec(text, func(dc *context.DataContext) {
				setup(dc)
				if c.Path == "late" {
					dc.Add("injectLate", func() { dc.Add("late", orig.Interface()) })
				} else {
					dc.Add("val", orig.Interface())
				}
			})
			after := w.snap()
			if pv != nil {
				fail("panic", fmt.Sprint(pv), text)
				continue
			}
			if c.Path == "ptr" {
				g, _ := num(w.dyn["p"].Elem())
				if err != nil || g != float64(v) {
					fail("injected-pointer-not-assigned", fmt.Sprint(err, " p=", g), text)
					continue
				}
				if df := diff(before, after, "p"); len(df) > 0 {
					fail("collateral-change", strings.Join(df, "; "), text)
					continue
				}
			} else if c.Path == "late" {
				g, ok := num(reflect.ValueOf(res["r"]))
				if err != nil || !ok || g != 3 {
					fail("local-shadows-injected", fmt.Sprintf("returned %#v (%v), the object injected under that name is 3", res["r"], err), text)
					continue
				}
			} else {
				// the injected value cannot be assigned: the rule fails, or it returns the injected value; never a local `val`
				if err == nil {
					g, ok := num(reflect.ValueOf(res["r"]))
					if !ok || g != 3 {
						fail("local-shadows-injected", fmt.Sprintf("returned %#v, the injected value is 3", res["r"]), text)
						continue
					}
				}
			}
			out = append(out, result{Ev: "case", OK: true})
		}
	}
	return out
}

// methods with typed parameters (a selection of kinds) recording their arguments
type HolderIn struct{}
type Holder struct {
	F  interface{}
	In *HolderIn
}

var curFn reflect.Value
var gotArgs []reflect.Value

func rec(a int64, x interface{}, s string) interface{} {
	gotArgs = []reflect.Value{reflect.ValueOf(a), reflect.ValueOf(x), reflect.ValueOf(s)}
	return x
}
func (h *Holder) Callint8(a int64, x int8, s string) int8          { return rec(a, x, s).(int8) }
func (h *Holder) Callint64(a int64, x int64, s string) int64       { return rec(a, x, s).(int64) }
func (h *Holder) Calluint16(a int64, x uint16, s string) uint16    { return rec(a, x, s).(uint16) }
func (h *Holder) Calluint64(a int64, x uint64, s string) uint64    { return rec(a, x, s).(uint64) }
func (h *Holder) Callfloat32(a int64, x float32, s string) float32 { return rec(a, x, s).(float32) }
func (h *Holder) Callfloat64(a int64, x float64, s string) float64 { return rec(a, x, s).(float64) }
func (h *Holder) Callstring(a int64, x string, s string) string    { return rec(a, x, s).(string) }
func (h *Holder) Callbool(a int64, x bool, s string) bool          { return rec(a, x, s).(bool) }
func (h *HolderIn) Callint8(a int64, x int8, s string) int8        { return rec(a, x, s).(int8) }
func (h *HolderIn) Callint64(a int64, x int64, s string) int64     { return rec(a, x, s).(int64) }
func (h *HolderIn) Calluint16(a int64, x uint16, s string) uint16  { return rec(a, x, s).(uint16) }
func (h *HolderIn) Calluint64(a int64, x uint64, s string) uint64  { return rec(a, x, s).(uint64) }
func (h *HolderIn) Callfloat32(a int64, x float32, s string) float32 {
	return rec(a, x, s).(float32)
}
func (h *HolderIn) Callfloat64(a int64, x float64, s string) float64 {
	return rec(a, x, s).(float64)
}
func (h *HolderIn) Callstring(a int64, x string, s string) string { return rec(a, x, s).(string) }
func (h *HolderIn) Callbool(a int64, x bool, s string) bool       { return rec(a, x, s).(bool) }

// VHolder: value-receiver Call* methods plus pointer-receiver methods that sort before and after them, so that the
// method sets of VHolder and *VHolder number their methods differently
type VHolder struct{ Tag int64 }

func (h *VHolder) Aaa()                                          { h.Tag = -1 }
func (h *VHolder) Zzz()                                          { h.Tag = -2 }
func (h *VHolder) Cblip()                                        { h.Tag = -3 }
func (h VHolder) Callint8(a int64, x int8, s string) int8        { return rec(a, x, s).(int8) }
func (h VHolder) Callint64(a int64, x int64, s string) int64     { return rec(a, x, s).(int64) }
func (h VHolder) Calluint16(a int64, x uint16, s string) uint16  { return rec(a, x, s).(uint16) }
func (h VHolder) Calluint64(a int64, x uint64, s string) uint64  { return rec(a, x, s).(uint64) }
func (h VHolder) Callfloat32(a int64, x float32, s string) float32 {
	return rec(a, x, s).(float32)
}
func (h VHolder) Callfloat64(a int64, x float64, s string) float64 {
	return rec(a, x, s).(float64)
}
func (h VHolder) Callstring(a int64, x string, s string) string { return rec(a, x, s).(string) }
func (h VHolder) Callbool(a int64, x bool, s string) bool       { return rec(a, x, s).(bool) }

func min(a, b int) int {
	if a < b {
		return a
	}
	return b
}

func main() {
	in := flag.String("in", "", "sessions ndjson")
	out := flag.String("out", "", "trace ndjson (appended)")
	journal := flag.String("journal", "", "journal file")
	shard := flag.String("shard", "0/1", "i/n")
	from := flag.Int("from", 0, "skip sessions with index < from")
	_ = flag.Duration("quiet", 0, "unused")
	_ = flag.Int64("seed", 1, "unused")
	flag.Parse()
	var si, sn int
	fmt.Sscanf(*shard, "%d/%d", &si, &sn)
	f, err := os.Open(*in)
	if err != nil {
		fmt.Fprintln(os.Stderr, err)
		os.Exit(2)
	}
	of, _ := os.OpenFile(*out, os.O_APPEND|os.O_CREATE|os.O_WRONLY, 0o644)
	jf, _ := os.OpenFile(*journal, os.O_APPEND|os.O_CREATE|os.O_WRONLY, 0o644)
	sc := bufio.NewScanner(f)
	sc.Buffer(make([]byte, 1<<20), 1<<26)
	i := -1
	for sc.Scan() {
		line := sc.Bytes()
		if len(strings.TrimSpace(string(line))) == 0 {
			continue
		}
		i++
		if i%sn != si || i < *from {
			continue
		}
		var c Cell
		if err := json.Unmarshal(line, &c); err != nil {
			fmt.Fprintf(os.Stderr, "driver: bad session line %d: %v\n", i, err)
			os.Exit(2)
		}
		fmt.Fprintf(jf, "%d %d\n", i, c.ID)
		evs := runCell(&c)
		var sb strings.Builder
		for k, e := range evs {
			var b []byte
			if k == 0 {
				b, _ = json.Marshal(map[string]interface{}{"ev": "session", "id": c.ID})
			} else {
				b, _ = json.Marshal(e)
			}
			sb.Write(b)
			sb.WriteByte('\n')
		}
		of.WriteString(sb.String())
		fmt.Fprintf(jf, "done %d\n", i)
	}
}
