// Package dispatch maps a scenario call onto the 21 engine and 24 pool execute methods.
package dispatch

import (
	"github.com/bilibili/gengine/builder"
	"github.com/bilibili/gengine/engine"
)

// Update is a change of the installed rule set applied before a call.
type Update struct {
	Op    string     `json:"op"` // incr | full | remove
	Rules []RuleDecl `json:"rules"`
	Names []string   `json:"names"`
}

// RuleDecl declares one generated rule (name, salience, body template).
type RuleDecl struct {
	Name string `json:"name"`
	Sal  int64  `json:"sal"`
	Tpl  string `json:"tpl"`
	NoSal bool  `json:"nosal,omitempty"` // salience 0 by omitting the salience clause
	RK   string `json:"rk,omitempty"` // how a "ret" outcome is produced: "" = `v = f(); return v`, "loop" = return of an injected field from inside a for loop that steps it
	FK   string `json:"fk,omitempty"` // how a "fail" outcome is produced: "" = panicking injected function, else a fault snippet
}

type Call struct {
	Pre    []Update          `json:"pre"`
	Method string            `json:"method"`
	Via    string            `json:"via"` // direct | em | emMulti | emSelected (pool only)
	B      bool              `json:"b"`
	Names  []string          `json:"names"`
	N      int               `json:"n"`
	M      int               `json:"m"`
	Dag    [][]string        `json:"dag"`
	Beh    map[string]string `json:"beh"`
	TagSet []string          `json:"tagset"`
	Rep    int               `json:"rep,omitempty"`  // issue the call rep more times with the very same argument slices
	Twin   bool              `json:"twin,omitempty"` // repeats the previous call through the stop-tag variant of its method (C14)
	Pin    bool              `json:"pin,omitempty"`  // locals sessions (C15): this call injects the plain name gp (as a pointer)
}

func EngineCall(g *engine.Gengine, rb *builder.RuleBuilder, c *Call, st *engine.Stag) error {
	switch c.Method {
	case "Execute":
		return g.Execute(rb, c.B)
	case "ExecuteWithStopTagDirect":
		return g.ExecuteWithStopTagDirect(rb, c.B, st)
	case "ExecuteConcurrent":
		return g.ExecuteConcurrent(rb)
	case "ExecuteMixModel":
		return g.ExecuteMixModel(rb)
	case "ExecuteMixModelWithStopTagDirect":
		return g.ExecuteMixModelWithStopTagDirect(rb, st)
	case "ExecuteSelectedRules":
		return g.ExecuteSelectedRules(rb, c.Names)
	case "ExecuteSelectedRulesWithControl":
		return g.ExecuteSelectedRulesWithControl(rb, c.B, c.Names)
	case "ExecuteSelectedRulesWithControlAsGivenSortedName":
		return g.ExecuteSelectedRulesWithControlAsGivenSortedName(rb, c.B, c.Names)
	case "ExecuteSelectedRulesWithControlAndStopTag":
		return g.ExecuteSelectedRulesWithControlAndStopTag(rb, c.B, st, c.Names)
	case "ExecuteSelectedRulesWithControlAndStopTagAsGivenSortedName":
		return g.ExecuteSelectedRulesWithControlAndStopTagAsGivenSortedName(rb, c.B, st, c.Names)
	case "ExecuteSelectedRulesConcurrent":
		return g.ExecuteSelectedRulesConcurrent(rb, c.Names)
	case "ExecuteSelectedRulesMixModel":
		return g.ExecuteSelectedRulesMixModel(rb, c.Names)
	case "ExecuteInverseMixModel":
		return g.ExecuteInverseMixModel(rb)
	case "ExecuteSelectedRulesInverseMixModel":
		return g.ExecuteSelectedRulesInverseMixModel(rb, c.Names)
	case "ExecuteNSortMConcurrent":
		return g.ExecuteNSortMConcurrent(c.N, c.M, rb, c.B)
	case "ExecuteNConcurrentMSort":
		return g.ExecuteNConcurrentMSort(c.N, c.M, rb, c.B)
	case "ExecuteNConcurrentMConcurrent":
		return g.ExecuteNConcurrentMConcurrent(c.N, c.M, rb, c.B)
	case "ExecuteSelectedNSortMConcurrent":
		return g.ExecuteSelectedNSortMConcurrent(c.N, c.M, rb, c.B, c.Names)
	case "ExecuteSelectedNConcurrentMSort":
		return g.ExecuteSelectedNConcurrentMSort(c.N, c.M, rb, c.B, c.Names)
	case "ExecuteSelectedNConcurrentMConcurrent":
		return g.ExecuteSelectedNConcurrentMConcurrent(c.N, c.M, rb, c.B, c.Names)
	case "ExecuteDAGModel":
		return g.ExecuteDAGModel(rb, c.Dag)
	}
	panic("driver: unknown method " + c.Method)
}

var EmOf = map[string]int{
	"Execute": engine.SortModel, "ExecuteConcurrent": engine.ConcurrentModel,
	"ExecuteMixModel": engine.MixModel, "ExecuteInverseMixModel": engine.InverseMixModel,
	"ExecuteSelectedRules": engine.SortModel, "ExecuteSelectedRulesConcurrent": engine.ConcurrentModel,
	"ExecuteSelectedRulesMixModel": engine.MixModel, "ExecuteSelectedRulesInverseMixModel": engine.InverseMixModel,
}

func PoolCall(p *engine.GenginePool, c *Call, st *engine.Stag, data map[string]interface{}) (error, map[string]interface{}) {
	switch c.Via {
	case "emMulti0": // the pool's current model, not set by the driver
		return p.ExecuteRulesWithMultiInputWithSpecifiedEM(data)
	case "emSelected0":
		return p.ExecuteSelectedWithSpecifiedEM(data, c.Names)
	case "em":
		_ = p.SetExecModel(EmOf[c.Method])
		return p.ExecuteRulesWithSpecifiedEM("stag", st, "", nil)
	case "emMulti":
		_ = p.SetExecModel(EmOf[c.Method])
		return p.ExecuteRulesWithMultiInputWithSpecifiedEM(data)
	case "emSelected":
		_ = p.SetExecModel(EmOf[c.Method])
		return p.ExecuteSelectedWithSpecifiedEM(data, c.Names)
	}
	switch c.Method {
	case "Execute":
		return p.Execute(data, c.B)
	case "ExecuteWithStopTagDirect":
		return p.ExecuteWithStopTagDirect(data, c.B, st)
	case "ExecuteConcurrent":
		return p.ExecuteConcurrent(data)
	case "ExecuteMixModel":
		return p.ExecuteMixModel(data)
	case "ExecuteMixModelWithStopTagDirect":
		return p.ExecuteMixModelWithStopTagDirect(data, st)
	case "ExecuteSelectedRules":
		return p.ExecuteSelectedRules(data, c.Names)
	case "ExecuteSelectedRulesWithControl":
		return p.ExecuteSelectedRulesWithControl(data, c.B, c.Names)
	case "ExecuteSelectedRulesWithControlAsGivenSortedName":
		return p.ExecuteSelectedRulesWithControlAsGivenSortedName(data, c.B, c.Names)
	case "ExecuteSelectedRulesWithControlAndStopTag":
		return p.ExecuteSelectedRulesWithControlAndStopTag(data, c.B, st, c.Names)
	case "ExecuteSelectedRulesWithControlAndStopTagAsGivenSortedName":
		return p.ExecuteSelectedRulesWithControlAndStopTagAsGivenSortedName(data, c.B, st, c.Names)
	case "ExecuteSelectedRulesConcurrent":
		return p.ExecuteSelectedRulesConcurrent(data, c.Names)
	case "ExecuteSelectedRulesMixModel":
		return p.ExecuteSelectedRulesMixModel(data, c.Names)
	case "ExecuteInverseMixModel":
		return p.ExecuteInverseMixModel(data)
	case "ExecuteSelectedRulesInverseMixModel":
		return p.ExecuteSelectedRulesInverseMixModel(data, c.Names)
	case "ExecuteNSortMConcurrent":
		return p.ExecuteNSortMConcurrent(c.N, c.M, c.B, data)
	case "ExecuteNConcurrentMSort":
		return p.ExecuteNConcurrentMSort(c.N, c.M, c.B, data)
	case "ExecuteNConcurrentMConcurrent":
		return p.ExecuteNConcurrentMConcurrent(c.N, c.M, c.B, data)
	case "ExecuteSelectedNSortMConcurrent":
		return p.ExecuteSelectedNSortMConcurrent(c.N, c.M, c.B, c.Names, data)
	case "ExecuteSelectedNConcurrentMSort":
		return p.ExecuteSelectedNConcurrentMSort(c.N, c.M, c.B, c.Names, data)
	case "ExecuteSelectedNConcurrentMConcurrent":
		return p.ExecuteSelectedNConcurrentMConcurrent(c.N, c.M, c.B, c.Names, data)
	case "ExecuteDAGModel":
		return p.ExecuteDAGModel(c.Dag, data)
	}
	panic("driver: unknown method " + c.Method)
}
